// libFuzzer targets for the blob decoders (clang, ASan+UBSan, fuzz variant = the seven codec TUs only).
// One source, compiled 12 times with -DVF_TARGET=<k>: k = 0..10 the blob kinds of refcodec, 11 = zlib_uncompress.
// Input: byte 0 selects the mode (even: the rest goes to the decoder as is; odd: the rest is the *uncompressed payload*
// and the target frames it with zlib level ((b>>1) % 11) - 1, so coverage guidance reaches the body parsers).
// Oracles inside the target:
//   C05  the decoder returns or throws std::exception (anything else traps); sanitizers watch memory / UB; -timeout watches hangs
//   C04  (2.x kinds) if from_blob accepts, payload(to_blob(v)) == payload(input) except the boolean byte normalised to 1
//   C03  if the decoder accepts, encode either throws or decodes back to the same value (re-encode fixed point)
#include <atomic>

#define VF_MAX_ALLOC_BYTES (64ull << 20)
#include "common/bigalloc.hpp"
#include "common/codec_values.hpp"

using namespace cv;

#ifndef VF_TARGET
#error "compile with -DVF_TARGET=<0..11>"
#endif

static uint64_t g_execs = 0, g_returned = 0, g_rejected = 0, g_rejected_frame = 0, g_c04_checked = 0, g_c03_checked = 0;
static void dump_counters()
{
    const char* p = getenv("VF_FUZZ_STATS");
    if (!p)
        return;
    FILE* f = fopen(p, "w");
    if (!f)
        return;
    fprintf(f, "{\"execs\":%llu,\"returned\":%llu,\"rejected_in_body\":%llu,\"rejected_in_framing\":%llu,\"c04_checked\":%llu,\"c03_checked\":%llu}\n",
            (unsigned long long)g_execs, (unsigned long long)g_returned, (unsigned long long)g_rejected, (unsigned long long)g_rejected_frame,
            (unsigned long long)g_c04_checked, (unsigned long long)g_c03_checked);
    fclose(f);
}
[[noreturn]] static void violation(const std::string& msg)
{
    fprintf(stderr, "\nVF-VIOLATION: %s\n", msg.c_str());
    dump_counters();
    __builtin_trap();
}

#if VF_TARGET <= 10
template <int K>
struct KT;
#define VF_KIND(K, TYPE, GEN, ENC, DEC)                                       \
    template <>                                                               \
    struct KT<K>                                                              \
    {                                                                         \
        using V = TYPE;                                                       \
        static V gen(S& s, Ctx& c, const GenOpts& o) { return GEN(s, c, o); } \
        static LibBytes enc(const V& v) { return v.ENC(); }                   \
        static V dec(const LibBytes& b) { return V::DEC(b); }                 \
    };
VF_KIND(ref::V2_TRACK_DATA, v2::track_data_blob, gen_v2_track, to_blob, from_blob)
VF_KIND(ref::V2_BEAT_DATA, v2::beat_data_blob, gen_v2_beat, to_blob, from_blob)
VF_KIND(ref::V2_QUICK_CUES, v2::quick_cues_blob, gen_v2_cues, to_blob, from_blob)
VF_KIND(ref::V2_LOOPS, v2::loops_blob, gen_v2_loops, to_blob, from_blob)
VF_KIND(ref::V2_OVERVIEW, v2::overview_waveform_data_blob, gen_v2_overview, to_blob, from_blob)
VF_KIND(ref::V1_TRACK_DATA, v1::track_data, gen_v1_track, encode, decode)
VF_KIND(ref::V1_BEAT_DATA, v1::beat_data, gen_v1_beat, encode, decode)
VF_KIND(ref::V1_HIGH_RES, v1::high_res_waveform_data, gen_v1_highres, encode, decode)
VF_KIND(ref::V1_OVERVIEW, v1::overview_waveform_data, gen_v1_overview, encode, decode)
VF_KIND(ref::V1_QUICK_CUES, v1::quick_cues_data, gen_v1_cues, encode, decode)
VF_KIND(ref::V1_LOOPS, v1::loops_data, gen_v1_loops, encode, decode)
using T = KT<VF_TARGET>;
static const int K = VF_TARGET;
#endif

static ref::Bytes make_blob(const uint8_t* data, size_t size, bool compressed_kind)
{
    if (size == 0)
        return {};
    uint8_t mode = data[0];
    ref::Bytes rest(data + 1, data + size);
    if ((mode & 1) == 0 || !compressed_kind)
        return rest;
    int level = static_cast<int>((mode >> 1) % 11) - 1;
    return ref::frame(rest, level);
}

extern "C" int LLVMFuzzerInitialize(int*, char***)
{
    atexit(dump_counters);
#if VF_TARGET <= 10
    if (const char* dir = getenv("VF_EMIT_CORPUS"))
    {
        // deterministic seeds: valid blobs produced by the harness's own generator + refcodec (never by the library)
        for (uint64_t i = 0; i < 48; ++i)
        {
            vf::Bulk b(0xC0FFEE + i * 7919 + K);
            vf::Record r(200);
            for (auto& x : r)
                x = b.next();
            S s(r);
            Ctx ctx;
            GenOpts o;
            o.whole_domain = false;
            o.sorted_grids = true;
            auto v = T::gen(s, ctx, o);
            ref::Bytes payload;
            try
            {
                payload = ref::write_payload(ref::layout(K), toks(v));
            }
            catch (const ref::Malformed&)
            {
                continue;
            }
            if (payload.size() > 3000)
                continue;
            ref::Bytes in;
            if (ref::compressed(K) && (i & 1))
            {
                in.push_back(static_cast<uint8_t>(1 | ((i % 11) << 1)));
                in.insert(in.end(), payload.begin(), payload.end());
            }
            else
            {
                in.push_back(0);
                ref::Bytes blob = ref::compressed(K) ? ref::frame(payload) : payload;
                in.insert(in.end(), blob.begin(), blob.end());
            }
            char name[600];
            snprintf(name, sizeof name, "%s/seed-%02llu", dir, (unsigned long long)i);
            FILE* f = fopen(name, "wb");
            if (f)
            {
                fwrite(in.data(), 1, in.size(), f);
                fclose(f);
            }
        }
        _exit(0);
    }
#endif
    return 0;
}

extern "C" int LLVMFuzzerTestOneInput(const uint8_t* data, size_t size)
{
    ++g_execs;
#if VF_TARGET == 11
    ref::Bytes blob = make_blob(data, size, true);
    LibBytes lb = to_lib(blob);
    try
    {
        auto out = djinterop::engine::zlib_uncompress(lb);
        ++g_returned;
        try
        {
            ref::Unframed u = ref::unframe(blob);
            if (!u.no_data && to_ref(out) != u.payload)
                violation("zlib_uncompress returns different bytes than one-shot inflate");
            ++g_c03_checked;
        }
        catch (const ref::Malformed&)
        {
        }
    }
    catch (const std::exception&)
    {
        ++g_rejected;
    }
    catch (...)
    {
        violation("zlib_uncompress threw something not derived from std::exception");
    }
    return 0;
#else
    ref::Bytes blob = make_blob(data, size, ref::compressed(K));
    LibBytes lb = to_lib(blob);
    bool framed_ok = true;
    ref::Bytes payload;
    try
    {
        payload = ref::payload_of(K, blob);
    }
    catch (const ref::Malformed&)
    {
        framed_ok = false;
    }
    T::V v;
    try
    {
        v = T::dec(lb);
    }
    catch (const std::exception&)
    {
        if (framed_ok)
            ++g_rejected;
        else
            ++g_rejected_frame;
        return 0;
    }
    catch (...)
    {
        violation(std::string(ref::kind_name(K)) + ": decoder threw something not derived from std::exception");
    }
    ++g_returned;
    // ---- accepted: re-encode
    LibBytes re;
    try
    {
        re = T::enc(v);
    }
    catch (const std::exception& e)
    {
        if (K <= ref::V2_OVERVIEW)
            violation(std::string(ref::kind_name(K)) + ": to_blob throws on a value from_blob returned: " + e.what());
        return 0;  // 1.x encoders may refuse what their decoder tolerates (e.g. an unlabelled populated cue)
    }
    // C03: own encoding decodes back to the same value
    try
    {
        auto v2_ = T::dec(re);
        ++g_c03_checked;
        if (canon(project(v)) != canon(v2_))
            violation(std::string(ref::kind_name(K)) + ": decode(encode(v)) != v for a decoded v\n want " + canon(project(v)) + "\n got  " + canon(v2_));
    }
    catch (const std::exception& e)
    {
        violation(std::string(ref::kind_name(K)) + ": library cannot decode its own re-encoding: " + e.what());
    }
    // C04: byte preservation (2.x kinds, and only when the input is one well-formed frame: then "the payload" is defined)
    if (K <= ref::V2_OVERVIEW && framed_ok && !(ref::compressed(K) && payload.empty()))
    {
        ref::Bytes expect = payload;
        if (K == ref::V2_QUICK_CUES)
        {
            try
            {
                ref::Toks t = ref::read_payload(ref::layout(K), payload);
                size_t flag = 1 + 6 * t[0].v + 1;
                if (flag < t.size() && t[flag].v > 1)
                    t[flag].v = 1;
                expect = ref::write_payload(ref::layout(K), t);
            }
            catch (const ref::Malformed&)
            {
                violation("quick cues blob accepted by from_blob but not parseable by the independent layout reader");
            }
        }
        ref::Bytes rp;
        try
        {
            rp = ref::payload_of(K, to_ref(re));
        }
        catch (const ref::Malformed& e)
        {
            violation(std::string("re-encoded blob is not well-framed: ") + e.what());
        }
        ++g_c04_checked;
        if (rp != expect)
        {
            size_t d = 0;
            while (d < rp.size() && d < expect.size() && rp[d] == expect[d])
                ++d;
            violation(std::string(ref::kind_name(K)) + ": re-encoded payload differs from the accepted input's payload at byte " + std::to_string(d) +
                      " (sizes " + std::to_string(expect.size()) + " vs " + std::to_string(rp.size()) + ")\n orig " +
                      hex(expect.data(), expect.size(), 200) + "\n re   " + hex(rp.data(), rp.size(), 200));
        }
    }
    return 0;
#endif
}
