// Track-side properties of the unified API: C01 (snapshot round trip) and C06 (getters/setters).
#pragma once
#include "common/api_common.hpp"

namespace api
{
// Reads every getter of a track into the same Fields form as fields_of(snapshot).
inline Fields fields_via_getters(dj::track& t)
{
    Fields f;
    f["album"] = rstr(t.album());
    f["artist"] = rstr(t.artist());
    f["average_loudness"] = rdbl(t.average_loudness());
    f["beatgrid"] = rgrid(t.beatgrid());
    f["bitrate"] = rint(t.bitrate());
    f["bpm"] = rdbl(t.bpm());
    f["comment"] = rstr(t.comment());
    f["composer"] = rstr(t.composer());
    f["duration"] = rdur(t.duration());
    f["genre"] = rstr(t.genre());
    f["hot_cues"] = rcues(t.hot_cues());
    f["key"] = rkey(t.key());
    f["last_played_at"] = rtime(t.last_played_at());
    f["loops"] = rloops(t.loops());
    f["main_cue"] = rdbl(t.main_cue());
    f["publisher"] = rstr(t.publisher());
    f["rating"] = rint(t.rating());
    f["relative_path"] = rstr(std::optional<std::string>(t.relative_path()));
    f["sample_count"] = rint(t.sample_count());
    f["sample_rate"] = rdbl(t.sample_rate());
    f["title"] = rstr(t.title());
    f["track_number"] = rint(t.track_number());
    f["waveform"] = rwave(t.waveform());
    f["year"] = rint(t.year());
    return f;
}

// ------------------------------------------------------------------------------------------------------ C01
// case: record 0 = header [schema, mode], record 1 = snapshot A, record 2 = snapshot B (stored first in update mode)
inline void prop_c01(const vf::Case& c, Ctx& ctx)
{
    S h(c[0]);
    auto schema = schemas()[h.below(schemas().size())];
    bool v2 = is_v2(schema);
    bool update_mode = h.coin();
    ctx.label("schema=" + sname(schema));
    ctx.label(v2 ? "family=2.x" : "family=1.x");
    GenOpts o;
    o.v2 = v2;
    o.serial = 1;
    S sa(c.size() > 1 ? c[1] : S::empty());
    dj::track_snapshot a = gen_snapshot(sa, ctx, o);
    Ctx scratch;
    scratch.tier = ctx.tier;
    o.serial = 2;
    S sb(c.size() > 2 ? c[2] : S::empty());
    dj::track_snapshot b = gen_snapshot(sb, scratch, o);
    if (!b.relative_path)
        b.relative_path = "stored/first.mp3";
    // known finding: 1.x stores bpm as (truncated integer, value derived from the grid) — routed around by construction
    if (!v2 && ctx.exclude("v1_bpm_not_stored_as_given"))
    {
        a.bpm = std::nullopt;
        b.bpm = std::nullopt;
    }
    ctx.describe = "schema " + sname(schema) + (update_mode ? " update " : " create ") + render(fields_of(a));
    ctx.key = ctx.describe;

    auto db = e::create_temporary_database(schema);
    std::optional<dj::track> tr;
    Fields before;
    if (h.below(4) == 0)
    {
        // the track under test is not the first the library has seen: another track (snapshot b) is written, read and removed first, so that
        // whatever the library remembers about "the last track" (and, on 1.x, the recycled id) meets the write under test
        try
        {
            dj::track_snapshot gone = b;
            gone.relative_path = "stored/removed-before.mp3";
            dj::track g = db.create_track(gone);
            (void)g.snapshot();
            db.remove_track(g);
            ctx.label("after-removed-track");
        }
        catch (const std::exception&)
        {
        }
    }
    if (update_mode)
    {
        ctx.label("mode=update");
        try
        {
            tr = db.create_track(b);
        }
        catch (const std::exception&)
        {
            // the stored snapshot was itself rejected: fall back to a minimal one
            dj::track_snapshot m;
            m.relative_path = "stored/minimal.mp3";
            tr = db.create_track(m);
        }
        before = fields_of(tr->snapshot());
    }
    size_t tracks_before = db.tracks().size();
    bool accepted = true;
    std::string why;
    try
    {
        if (update_mode)
            tr->update(a);
        else
            tr = db.create_track(a);
    }
    catch (const std::exception& ex)
    {
        accepted = false;
        why = ex.what();
    }
    if (!accepted)
    {
        ctx.label("write-rejected");
        ctx.label("rejected:" + why.substr(0, 60));
        // (c) reject-or-survive: nothing changed
        VF_CHECK(db.tracks().size() == tracks_before, "rejected write (" << why << ") changed the number of tracks");
        if (update_mode)
        {
            Fields after = fields_of(tr->snapshot());
            VF_CHECK(after == before, "rejected update (" << why << ") changed the stored snapshot:" << diff(before, after));
        }
        return;
    }
    ctx.label("write-accepted");
    bool populated = !a.beatgrid.empty() || !a.waveform.empty();
    for (auto& cue : a.hot_cues)
        populated = populated || cue.has_value();
    for (auto& l : a.loops)
        populated = populated || l.has_value();
    ctx.nontrivial = populated;
    // (a) model
    dj::track_snapshot r1;
    try
    {
        r1 = tr->snapshot();
    }
    catch (const std::exception& ex)
    {
        VF_CHECK(false, "write was accepted but the following snapshot() throws: " << ex.what());
    }
    Fields want = fields_of(expected(schema, a));
    Fields got = fields_of(r1);
    VF_CHECK(want == got, "read-back snapshot differs from what was written (schema " << sname(schema) << (update_mode ? ", update" : ", create")
                                                                                         << "):" << diff(want, got));
    // (b) fixed point
    try
    {
        tr->update(r1);
    }
    catch (const std::exception& ex)
    {
        VF_CHECK(false, "writing the read-back snapshot again is rejected: " << ex.what());
    }
    Fields got2 = fields_of(tr->snapshot());
    VF_CHECK(got == got2, "read-back snapshot is not a fixed point:" << diff(got, got2));
}

// ------------------------------------------------------------------------------------------------------ C06
struct SetterSpec
{
    const char* name;
    const char* storage;  // shared-storage group (same blob / row)
};
inline const std::vector<SetterSpec>& setters()
{
    static const std::vector<SetterSpec> v = {
        {"album", "meta"},         {"artist", "meta"},       {"average_loudness", "trackdata"}, {"beatgrid", "beatdata"},
        {"bitrate", "row"},        {"bpm", "row"},           {"comment", "meta"},               {"composer", "meta"},
        {"duration", "row"},       {"genre", "meta"},        {"hot_cue_at", "cues"},            {"hot_cues", "cues"},
        {"key", "trackdata"},      {"last_played_at", "meta"}, {"loop_at", "loops"},            {"loops", "loops"},
        {"main_cue", "cues"},      {"publisher", "meta"},    {"rating", "meta"},                {"relative_path", "row"},
        {"sample_count", "trackdata"}, {"sample_rate", "trackdata"}, {"title", "meta"},         {"track_number", "row"},
        {"waveform", "waveform"},  {"year", "row"}};
    return v;
}

struct TrackModel
{
    dj::track handle;
    dj::track_snapshot given;  // the value last written per field, un-normalised (model input)
    std::string last_group;
};

// applies setter #k with generated arguments to the track and to the model's `given` snapshot.
// returns a description; sets `threw` when the library rejected the call (model unchanged).
inline std::string apply_setter(size_t k, S& s, Ctx& ctx, e::engine_schema schema, TrackModel& m, bool& threw, int serial,
                                const std::string* other_tracks_path = nullptr)
{
    bool v2 = is_v2(schema);
    dj::track& t = m.handle;
    dj::track_snapshot g = m.given;
    std::string nm = setters()[k].name;
    std::string desc = nm;
    threw = false;
    auto call = [&](auto&& fn)
    {
        try
        {
            vfshim::CallScope in_library_call;
            fn();
        }
        catch (const std::exception& ex)
        {
            threw = true;
            desc += " -> threw " + std::string(ex.what()).substr(0, 80);
        }
    };
    if (nm == "album") { g.album = gen_text(s, ctx, false); desc += " " + rstr(g.album); call([&] { t.set_album(g.album); }); }
    else if (nm == "artist") { g.artist = gen_text(s, ctx, false); desc += " " + rstr(g.artist); call([&] { t.set_artist(g.artist); }); }
    else if (nm == "average_loudness") { g.average_loudness = gen_loudness(s, false); desc += " " + rdbl(g.average_loudness); call([&] { t.set_average_loudness(g.average_loudness); }); }
    else if (nm == "beatgrid") { g.beatgrid = gen_grid(s, ctx, false); desc += " " + rgrid(g.beatgrid); call([&] { t.set_beatgrid(g.beatgrid); }); }
    else if (nm == "bitrate") { g.bitrate = gen_int(s, false); desc += " " + rint(g.bitrate); call([&] { t.set_bitrate(g.bitrate); }); }
    else if (nm == "bpm") { g.bpm = gen_bpm(s, ctx, false); desc += " " + rdbl(g.bpm); call([&] { t.set_bpm(g.bpm); }); }
    else if (nm == "comment") { g.comment = gen_text(s, ctx, false); desc += " " + rstr(g.comment); call([&] { t.set_comment(g.comment); }); }
    else if (nm == "composer") { g.composer = gen_text(s, ctx, false); desc += " " + rstr(g.composer); call([&] { t.set_composer(g.composer); }); }
    else if (nm == "duration") { g.duration = gen_duration(s, false); desc += " " + rdur(g.duration); call([&] { t.set_duration(g.duration); }); }
    else if (nm == "genre") { g.genre = gen_text(s, ctx, false); desc += " " + rstr(g.genre); call([&] { t.set_genre(g.genre); }); }
    else if (nm == "hot_cue_at")
    {
        int idx = static_cast<int>(s.below(8));
        auto cue = gen_cue(s, ctx, false);
        ctx.label("slot-index=" + std::to_string(idx));
        g.hot_cues = pad8(g.hot_cues);
        if (static_cast<size_t>(idx) < g.hot_cues.size())
            g.hot_cues[idx] = cue;
        desc += "[" + std::to_string(idx) + "] " + rcue(cue);
        call([&] { t.set_hot_cue_at(idx, cue); });
    }
    else if (nm == "hot_cues") { g.hot_cues = gen_cues(s, ctx, false); desc += " " + rcues(g.hot_cues); call([&] { t.set_hot_cues(g.hot_cues); }); }
    else if (nm == "key") { g.key = gen_key(s, ctx); desc += " " + rkey(g.key); call([&] { t.set_key(g.key); }); }
    else if (nm == "last_played_at") { g.last_played_at = gen_time(s, false); desc += " " + rtime(g.last_played_at); call([&] { t.set_last_played_at(g.last_played_at); }); }
    else if (nm == "loop_at")
    {
        int idx = static_cast<int>(s.below(8));
        auto l = gen_loop(s, ctx, false);
        ctx.label("slot-index=" + std::to_string(idx));
        g.loops = pad8(g.loops);
        if (static_cast<size_t>(idx) < g.loops.size())
            g.loops[idx] = l;
        desc += "[" + std::to_string(idx) + "] " + rloop(l);
        call([&] { t.set_loop_at(idx, l); });
    }
    else if (nm == "loops") { g.loops = gen_loops(s, ctx, false); desc += " " + rloops(g.loops); call([&] { t.set_loops(g.loops); }); }
    else if (nm == "main_cue") { g.main_cue = gen_main_cue(s, ctx, false); desc += " " + rdbl(g.main_cue); call([&] { t.set_main_cue(g.main_cue); }); }
    else if (nm == "publisher") { g.publisher = gen_text(s, ctx, false); desc += " " + rstr(g.publisher); call([&] { t.set_publisher(g.publisher); }); }
    else if (nm == "rating") { g.rating = gen_rating(s); desc += " " + rint(g.rating); call([&] { t.set_rating(g.rating); }); }
    else if (nm == "relative_path")
    {
        GenOpts o;
        o.v2 = v2;
        std::string p = gen_path(s, ctx, o, serial);
        if (s.below(4) == 0)
        {
            // the setter (unlike a snapshot write on 2.x) takes a file name without an extension: derived columns must follow
            auto slash = p.find_last_of('/');
            auto dot = p.find_last_of('.');
            if (dot != std::string::npos && (slash == std::string::npos || dot > slash))
                p = s.coin() ? p.substr(0, dot) : p.substr(0, dot + 1);
            ctx.label("set_relative_path:no-extension");
        }
        if (other_tracks_path && s.below(4) == 0)
        {
            // the path ANOTHER track of the library holds at this moment: the schema may refuse it (UNIQUE) or keep both; either way the
            // other track stays what it was, which the comparison of every track after the step decides
            p = *other_tracks_path;
            ctx.label("set_relative_path:path-of-another-track");
        }
        g.relative_path = p;
        desc += " " + hexs(p);
        call([&] { t.set_relative_path(p); });
    }
    else if (nm == "sample_count") { g.sample_count = gen_sample_count(s, ctx); desc += " " + rint(g.sample_count); call([&] { t.set_sample_count(g.sample_count); }); }
    else if (nm == "sample_rate") { g.sample_rate = gen_sample_rate(s, ctx, false); desc += " " + rdbl(g.sample_rate); call([&] { t.set_sample_rate(g.sample_rate); }); }
    else if (nm == "title") { g.title = gen_text(s, ctx, false); desc += " " + rstr(g.title); call([&] { t.set_title(g.title); }); }
    else if (nm == "track_number") { g.track_number = gen_int(s, false); desc += " " + rint(g.track_number); call([&] { t.set_track_number(g.track_number); }); }
    else if (nm == "waveform")
    {
        auto w = gen_waveform(s, ctx, m.given.sample_count, m.given.sample_rate);
        desc += " " + rwave(w);
        // 2.x stores the overview only: what is kept is the resampling computed with the sample count/rate of the moment
        g.waveform = v2 ? expected_waveform_v2(w, expected(schema, m.given).sample_count, expected(schema, m.given).sample_rate) : w;
        call([&] { t.set_waveform(w); });
    }
    else if (nm == "year") { g.year = gen_int(s, false); desc += " " + rint(g.year); call([&] { t.set_year(g.year); }); }
    if (!threw)
        m.given = g;
    return desc;
}

// expected getter view of a track whose fields were last written as `given`
inline Fields expected_fields(e::engine_schema schema, const dj::track_snapshot& given)
{
    dj::track_snapshot x = expected(schema, given);
    if (is_v2(schema))
        x.waveform = given.waveform;  // already stored in its resampled form (see apply_setter / creation below)
    Fields f = fields_of(x);
    return f;
}

inline void check_track_against_model(e::engine_schema schema, TrackModel& m, const std::string& where)
{
    Fields want = expected_fields(schema, m.given);
    want.erase("file_bytes");
    dj::track_snapshot snap;
    try
    {
        snap = m.handle.snapshot();
    }
    catch (const std::exception& ex)
    {
        VF_CHECK(false, where << ": snapshot() throws: " << ex.what());
    }
    Fields sf = fields_of(snap);
    sf.erase("file_bytes");
    Fields gf;
    try
    {
        gf = fields_via_getters(m.handle);
    }
    catch (const std::exception& ex)
    {
        VF_CHECK(false, where << ": a getter throws: " << ex.what());
    }
    VF_CHECK(gf == sf, where << ": getters and snapshot() disagree (want = snapshot, got = getters):" << diff(sf, gf));
    VF_CHECK(want == gf, where << ": getters differ from the model:" << diff(want, gf));
    // derived names
    std::string path = m.handle.relative_path();
    std::string fn = path.substr(path.rfind('/') == std::string::npos ? 0 : path.rfind('/') + 1);
    std::string ext = fn.rfind('.') == std::string::npos ? "" : fn.substr(fn.rfind('.') + 1);
    VF_CHECK(m.handle.filename() == fn, where << ": filename() = " << hexs(m.handle.filename()) << " but the path's basename is " << hexs(fn));
    VF_CHECK(m.handle.file_extension() == ext, where << ": file_extension() = " << hexs(m.handle.file_extension()) << " but the path's extension is " << hexs(ext));
}

// case: record 0 = header [schema, ntracks], records 1..nt = creation snapshots, further records = setter ops [track, setter, args...]
inline void prop_c06(const vf::Case& c, Ctx& ctx)
{
    S h(c[0]);
    auto schema = schemas()[h.below(schemas().size())];
    bool v2 = is_v2(schema);
    size_t nt = 1 + h.below(3);
    ctx.label("schema=" + sname(schema));
    ctx.label(v2 ? "family=2.x" : "family=1.x");
    auto db = e::create_temporary_database(schema);
    std::vector<TrackModel> tracks;
    std::vector<dj::track> alt;
    std::string hist = "schema " + sname(schema) + ":";
    size_t rec = 1;
    for (size_t i = 0; i < nt; ++i, ++rec)
    {
        S s(rec < c.size() ? c[rec] : S::empty());
        GenOpts o;
        o.v2 = v2;
        o.serial = static_cast<int>(i + 1);
        Ctx scratch;
        scratch.tier = ctx.tier;
        dj::track_snapshot snap = gen_snapshot(s, scratch, o);
        if (!v2 && ctx.exclude("v1_bpm_not_stored_as_given"))
            snap.bpm = std::nullopt;
        std::optional<dj::track> tr;
        try
        {
            tr = db.create_track(snap);
        }
        catch (const std::exception&)
        {
            snap = dj::track_snapshot{};
            snap.relative_path = "fallback/track-" + std::to_string(i) + ".mp3";
            tr = db.create_track(snap);
        }
        if (v2)
            snap.waveform = expected_waveform_v2(snap.waveform, expected(schema, snap).sample_count, expected(schema, snap).sample_rate);
        tracks.push_back(TrackModel{*tr, snap, ""});
        // a second handle to the same track, obtained by a separate lookup and kept for the whole history: setters go through either
        // handle, so whatever a handle keeps to itself (a cached row, a decoded blob) meets writes made through the other one
        auto second = db.track_by_id(tr->id());
        VF_CHECK(second.has_value(), hist << ": track_by_id does not find the track just created");
        alt.push_back(*second);
        hist += " create#" + std::to_string(i);
    }
    for (size_t i = 0; i < tracks.size(); ++i)
        check_track_against_model(schema, tracks[i], hist + " [after creation, track " + std::to_string(i) + "]");
    std::set<size_t> touched;
    bool shared_pair = false;
    int serial = 100;
    for (; rec < c.size(); ++rec)
    {
        S s(c[rec]);
        size_t ti = s.below(tracks.size());
        size_t k = s.below(setters().size());
        if (!v2 && std::string(setters()[k].name) == "bpm" && ctx.exclude("v1_bpm_not_stored_as_given"))
            continue;
        bool threw = false;
        Fields before_all = fields_via_getters(tracks[ti].handle);
        bool via_second = s.below(3) == 0;
        if (via_second)
            std::swap(tracks[ti].handle, alt[ti]);
        std::optional<std::string> clash;
        if (tracks.size() >= 2)
            clash = tracks[(ti + 1) % tracks.size()].handle.relative_path();
        std::string d = apply_setter(k, s, ctx, schema, tracks[ti], threw, ++serial, clash ? &*clash : nullptr);
        if (via_second)
        {
            std::swap(tracks[ti].handle, alt[ti]);
            ctx.label("setter-via-second-handle");
        }
        hist += " | t" + std::to_string(ti) + (via_second ? "'." : ".") + d;
        ctx.label(std::string(v2 ? "2.x:" : "1.x:") + "set_" + setters()[k].name);
        if (threw)
        {
            ctx.label("setter-rejected");
            Fields after = fields_via_getters(tracks[ti].handle);
            VF_CHECK(after == before_all, hist << ": a setter that threw changed the track:" << diff(before_all, after));
        }
        else
        {
            if (touched.count(ti) && tracks[ti].last_group == setters()[k].storage)
            {
                shared_pair = true;
                ctx.label("shared-storage pair");
            }
            tracks[ti].last_group = setters()[k].storage;
            touched.insert(ti);
        }
        for (size_t i = 0; i < tracks.size(); ++i)
            check_track_against_model(schema, tracks[i], hist + " [track " + std::to_string(i) + "]");
        // the touched track also as seen through its other handle
        std::swap(tracks[ti].handle, alt[ti]);
        try
        {
            check_track_against_model(schema, tracks[ti], hist + " [track " + std::to_string(ti) + ", second handle]");
        }
        catch (...)
        {
            std::swap(tracks[ti].handle, alt[ti]);
            throw;
        }
        std::swap(tracks[ti].handle, alt[ti]);
    }
    ctx.describe = hist;
    ctx.key = hist;
    ctx.nontrivial = shared_pair || touched.size() >= 2;
}
}  // namespace api
