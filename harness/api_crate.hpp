// Crate-side model-based properties: C07 (forest), C08 (membership), C09 (ordered listings, 2.x).
#pragma once
#include <algorithm>
#include <cctype>
#include <functional>

#include "api_track.hpp"

namespace api
{
struct CrateM
{
    dj::crate handle;
    int64_t id;
    std::string name;
    int64_t parent;  // 0 = root
    bool live = true;
    // a second handle to the same crate, obtained by a separate crate_by_id lookup when the crate is adopted and kept for the whole
    // history: one operation in three goes through the second handles, every check reads through the first ones
    std::optional<dj::crate> second;
};
struct TrackM
{
    dj::track handle;
    int64_t id;
    bool live = true;
};

struct World
{
    e::engine_schema schema;
    bool v2;
    dj::database db;
    std::vector<CrateM> crates;  // every crate ever created
    std::vector<TrackM> tracks;
    std::set<std::pair<int64_t, int64_t>> members;      // (crate id, track id)
    std::map<int64_t, std::vector<int64_t>> order;      // 2.x: parent id (0 = root) -> ordered child ids
    std::map<int64_t, std::vector<int64_t>> entries;    // 2.x: crate id -> ordered track ids
    std::set<int64_t> issued_crate_ids, issued_track_ids;
    int serial = 0;
    std::string hist;
    // classification
    int max_depth = 0;
    bool structural_on_nonleaf = false, cycle_attempt = false, removed_member = false, removed_member_crate = false;
    bool recreated_track = false, nonlast_change = false, diverged_ids = false;

    // A second library of the same schema, open in the same process at the same time, whose crates and tracks carry the SAME ids as the
    // ones of the library under test but different names and memberships. Operations on it are interleaved with the history; whatever
    // the library keeps per process rather than per database (static caches keyed by id, shared statements) then shows up as a model
    // mismatch in either library.
    struct Decoy
    {
        std::optional<dj::database> db;
        std::vector<dj::crate> crates;
        std::vector<std::string> names;
        std::vector<dj::track> tracks;
        std::set<std::pair<size_t, size_t>> members;  // (crate index, track index)
        int serial = 0;
    } decoy;

    World(e::engine_schema s, dj::database d) : schema(s), v2(is_v2(s)), db(std::move(d)) {}

    std::vector<size_t> live_crates() const
    {
        std::vector<size_t> v;
        for (size_t i = 0; i < crates.size(); ++i)
            if (crates[i].live)
                v.push_back(i);
        return v;
    }
    std::vector<size_t> live_tracks() const
    {
        std::vector<size_t> v;
        for (size_t i = 0; i < tracks.size(); ++i)
            if (tracks[i].live)
                v.push_back(i);
        return v;
    }
    CrateM* by_id(int64_t id)
    {
        for (auto& c : crates)
            if (c.live && c.id == id)
                return &c;
        return nullptr;
    }
    std::set<int64_t> subtree(int64_t id) const  // descendants (excluding id)
    {
        std::set<int64_t> out;
        bool grew = true;
        while (grew)
        {
            grew = false;
            for (auto& c : crates)
                if (c.live && !out.count(c.id) && (c.parent == id || out.count(c.parent)) && c.id != id)
                    grew = out.insert(c.id).second || grew;
        }
        return out;
    }
    int depth_of(int64_t id)
    {
        int d = 1;
        for (CrateM* c = by_id(id); c && c->parent != 0 && d < 50; c = by_id(c->parent))
            ++d;
        return d;
    }
    bool sibling_name_exists(int64_t parent, const std::string& name, int64_t except = -1)
    {
        for (auto& c : crates)
            if (c.live && c.parent == parent && c.name == name && c.id != except)
                return true;
        return false;
    }
};

inline std::string gen_crate_name(S& s, Ctx& ctx, World& w)
{
    static const std::vector<std::string> pool = {"A", "B", "C", "D", "AA", "BA", "a", "b", "Aa", "A%", "_"};
    switch (s.below(10))
    {
        case 0:
        case 1:
        case 2:
        case 3: return pool[s.below(pool.size())];
        case 4: return "crate-" + std::to_string(++w.serial);
        case 5: return "\xc3\x9cml\xc3\xa4ut " + std::to_string(++w.serial);
        case 6: ctx.label("name:invalid"); return s.coin() ? std::string("") : "semi;colon";
        case 7: return "it's \"q\" %_" + std::to_string(++w.serial);
        default: return "n" + std::to_string(++w.serial);
    }
}
inline bool valid_crate_name(const std::string& n) { return !n.empty() && n.find(';') == std::string::npos; }

inline std::string ids_str(const std::vector<int64_t>& v)
{
    std::string s = "[";
    for (auto x : v)
        s += std::to_string(x) + " ";
    return s + "]";
}
template <class C>
std::vector<int64_t> ids_of(const C& handles)
{
    std::vector<int64_t> v;
    for (auto& h : handles)
        v.push_back(h.id());
    return v;
}
inline std::vector<int64_t> sorted(std::vector<int64_t> v)
{
    std::sort(v.begin(), v.end());
    return v;
}

// ---------------------------------------------------------------------------------------------- invariants
inline void check_forest(World& w, const std::string& where)
{
    std::vector<int64_t> live;
    for (auto& c : w.crates)
        if (c.live)
            live.push_back(c.id);
    // I1
    auto all = sorted(ids_of(w.db.crates()));
    VF_CHECK(all == sorted(live), where << ": crates() = " << ids_str(all) << " but the live crates are " << ids_str(sorted(live)));
    // I5
    std::vector<int64_t> roots;
    for (auto& c : w.crates)
        if (c.live && c.parent == 0)
            roots.push_back(c.id);
    auto got_roots = sorted(ids_of(w.db.root_crates()));
    VF_CHECK(got_roots == sorted(roots), where << ": root_crates() = " << ids_str(got_roots) << " but the parentless crates are " << ids_str(sorted(roots)));
    std::set<std::string> names;
    for (auto& c : w.crates)
    {
        if (!c.live)
        {
            // I8 (as long as the id has not been handed out again)
            if (!w.by_id(c.id))
            {
                VF_CHECK(!c.handle.is_valid(), where << ": handle of removed crate " << c.id << " reports is_valid()");
                VF_CHECK(!w.db.crate_by_id(c.id), where << ": crate_by_id(" << c.id << ") finds a removed crate");
            }
            continue;
        }
        names.insert(c.name);
        VF_CHECK(c.handle.is_valid(), where << ": live crate " << c.id << " reports !is_valid()");
        VF_CHECK(c.handle.id() == c.id, where << ": crate id changed from " << c.id << " to " << c.handle.id());
        VF_CHECK(c.handle.name() == c.name, where << ": crate " << c.id << " name() = " << hexs(c.handle.name()) << ", expected " << hexs(c.name));
        // I2
        auto p = c.handle.parent();
        int64_t pid = p ? p->id() : 0;
        VF_CHECK(pid == c.parent, where << ": crate " << c.id << " parent() = " << pid << ", expected " << c.parent);
        // I3
        std::vector<int64_t> kids;
        for (auto& d : w.crates)
            if (d.live && d.parent == c.id)
                kids.push_back(d.id);
        auto got_kids = sorted(ids_of(c.handle.children()));
        VF_CHECK(got_kids == sorted(kids), where << ": children(" << c.id << ") = " << ids_str(got_kids) << ", expected " << ids_str(sorted(kids)));
        // I4
        auto st = w.subtree(c.id);
        std::vector<int64_t> desc(st.begin(), st.end());
        auto got_desc = sorted(ids_of(c.handle.descendants()));
        VF_CHECK(got_desc == desc, where << ": descendants(" << c.id << ") = " << ids_str(got_desc) << ", expected " << ids_str(desc));
        // I6 by id
        auto byid = w.db.crate_by_id(c.id);
        VF_CHECK(byid && byid->id() == c.id, where << ": crate_by_id(" << c.id << ") does not find the live crate");
    }
    // I6 never-issued ids
    int64_t mx = 0;
    for (auto id : w.issued_crate_ids)
        mx = std::max(mx, id);
    for (int64_t probe : {int64_t{0}, int64_t{-1}, mx + 1, mx + 1000})
        if (!w.issued_crate_ids.count(probe))
            VF_CHECK(!w.db.crate_by_id(probe), where << ": crate_by_id(" << probe << ") finds a crate that was never created");
    // I6 by name: the names in use, one unused name, and near misses of the names in use (ASCII case flipped, SQL LIKE wildcards in place
    // of a character, a trailing blank, a proper prefix): a lookup must match the whole name exactly.
    names.insert("no-such-crate-name");
    {
        std::set<std::string> near;
        size_t budget = 6;  // near misses of at most six names per check, the by-name block is quadratic
        for (auto& n : names)
        {
            if (!budget--)
                break;
            std::string f = n;
            for (auto& ch : f)
                ch = static_cast<char>(std::islower(static_cast<unsigned char>(ch)) ? std::toupper(static_cast<unsigned char>(ch))
                                                                                     : std::tolower(static_cast<unsigned char>(ch)));
            near.insert(f);
            near.insert("%" + n.substr(1));
            near.insert("_" + n.substr(1));
            near.insert(n + " ");
            if (n.size() > 1)
                near.insert(n.substr(0, n.size() - 1));
        }
        for (auto& n : near)
            if (valid_crate_name(n))
                names.insert(n);
    }
    for (auto& n : names)
    {
        std::vector<int64_t> want;
        for (auto& c : w.crates)
            if (c.live && c.name == n)
                want.push_back(c.id);
        auto got = sorted(ids_of(w.db.crates_by_name(n)));
        VF_CHECK(got == sorted(want), where << ": crates_by_name(" << hexs(n) << ") = " << ids_str(got) << ", expected " << ids_str(sorted(want)));
        auto r = w.db.root_crate_by_name(n);
        bool exists = w.sibling_name_exists(0, n);
        VF_CHECK(r.has_value() == exists, where << ": root_crate_by_name(" << hexs(n) << ") " << (r ? "finds" : "does not find") << " a crate but "
                                                 << (exists ? "one exists" : "none exists"));
        if (r)
        {
            CrateM* m = w.by_id(r->id());
            VF_CHECK(m && m->parent == 0 && m->name == n, where << ": root_crate_by_name(" << hexs(n) << ") returns crate " << r->id() << " which is not a root crate of that name");
        }
        for (auto& c : w.crates)
        {
            if (!c.live)
                continue;
            auto sc = c.handle.sub_crate_by_name(n);
            bool ex = w.sibling_name_exists(c.id, n);
            VF_CHECK(sc.has_value() == ex, where << ": sub_crate_by_name(" << c.id << ", " << hexs(n) << ") " << (sc ? "finds" : "does not find")
                                                  << " a crate but " << (ex ? "one exists" : "none exists"));
            if (sc)
            {
                CrateM* m = w.by_id(sc->id());
                VF_CHECK(m && m->parent == c.id && m->name == n, where << ": sub_crate_by_name(" << c.id << ", " << hexs(n) << ") returns crate " << sc->id() << " which is not such a child");
            }
        }
    }
}

inline void check_members(World& w, const std::string& where)
{
    for (auto& c : w.crates)
    {
        if (!c.live)
            continue;
        std::vector<int64_t> want;
        for (auto& m : w.members)
            if (m.first == c.id)
                want.push_back(m.second);
        auto handles = c.handle.tracks();
        auto got = sorted(ids_of(handles));
        VF_CHECK(got == sorted(want), where << ": tracks(crate " << c.id << ") = " << ids_str(got) << ", expected " << ids_str(sorted(want)));
        for (auto& h : handles)
            VF_CHECK(h.is_valid(), where << ": tracks(crate " << c.id << ") contains removed track " << h.id());
    }
    for (auto& t : w.tracks)
    {
        if (!t.live)
        {
            bool reissued = false;
            for (auto& u : w.tracks)
                reissued = reissued || (u.live && u.id == t.id);
            if (!reissued)
                VF_CHECK(!t.handle.is_valid(), where << ": handle of removed track " << t.id << " reports is_valid()");
            continue;
        }
        VF_CHECK(t.handle.is_valid(), where << ": live track " << t.id << " reports !is_valid()");
        std::vector<int64_t> want;
        for (auto& m : w.members)
            if (m.second == t.id)
                want.push_back(m.first);
        if (!w.v2)
        {
            auto got = sorted(ids_of(t.handle.containing_crates()));
            VF_CHECK(got == sorted(want), where << ": containing_crates(track " << t.id << ") = " << ids_str(got) << ", expected " << ids_str(sorted(want)));
        }
        else
        {
            // "where supported": 2.x documents this as not yet implemented
            try
            {
                auto got = sorted(ids_of(t.handle.containing_crates()));
                VF_CHECK(got == sorted(want), where << ": containing_crates(track " << t.id << ") = " << ids_str(got) << ", expected " << ids_str(sorted(want)));
            }
            catch (const std::runtime_error&)
            {
            }
        }
    }
    auto all_tracks = sorted(ids_of(w.db.tracks()));
    std::vector<int64_t> live;
    for (auto& t : w.tracks)
        if (t.live)
            live.push_back(t.id);
    VF_CHECK(all_tracks == sorted(live), where << ": tracks() = " << ids_str(all_tracks) << " but the live tracks are " << ids_str(sorted(live)));
}

inline void check_order(World& w, const std::string& where)
{
    if (!w.v2)
        return;
    auto got_roots = ids_of(w.db.root_crates());
    VF_CHECK(got_roots == w.order[0], where << ": root_crates() order = " << ids_str(got_roots) << ", expected " << ids_str(w.order[0]));
    for (auto& c : w.crates)
    {
        if (!c.live)
            continue;
        auto got = ids_of(c.handle.children());
        VF_CHECK(got == w.order[c.id], where << ": children(" << c.id << ") order = " << ids_str(got) << ", expected " << ids_str(w.order[c.id]));
        auto gt = ids_of(c.handle.tracks());
        VF_CHECK(gt == w.entries[c.id], where << ": tracks(crate " << c.id << ") order = " << ids_str(gt) << ", expected " << ids_str(w.entries[c.id]));
    }
}

// ---------------------------------------------------------------------------------------------- operations
enum OpMask
{
    OPS_FOREST = 1,   // create root/sub, rename, move, remove
    OPS_AFTER = 2,    // positional creates
    OPS_MEMBERS = 4,  // tracks, add/remove/clear
};

inline void erase_from(std::vector<int64_t>& v, int64_t id) { v.erase(std::remove(v.begin(), v.end(), id), v.end()); }
inline void label_position(Ctx& ctx, const std::vector<int64_t>& lst, int64_t id, const std::string& what)
{
    if (lst.size() < 3)
        return;
    auto it = std::find(lst.begin(), lst.end(), id);
    if (it == lst.end())
        return;
    ctx.label(what + (it == lst.begin() ? ":first-of>=3" : (it + 1 == lst.end() ? ":last-of>=3" : ":middle-of>=3")));
}

// registers a crate the library just created
inline void adopt_new_crate(World& w, Ctx& ctx, dj::crate cr, const std::string& name, int64_t parent, int64_t after, const std::string& where)
{
    int64_t id = cr.id();
    VF_CHECK(!w.by_id(id), where << ": new crate got id " << id << " which belongs to a live crate");
    if (w.issued_crate_ids.count(id))
    {
        // ids of removed crates must never come back (a stale handle would become valid again and crate_by_id would find a
        // "removed" crate). 1.x re-issues the highest id: known finding F33, tolerated only while it is listed.
        VF_CHECK(!w.v2 && ctx.exclude("v1_entity_id_reissued"), where << ": crate id " << id << " of a removed crate was issued again");
        ctx.label("1.x:crate-id-reissued");
    }
    w.issued_crate_ids.insert(id);
    w.crates.push_back(CrateM{cr, id, name, parent, true, w.db.crate_by_id(id)});
    auto& lst = w.order[parent];
    if (after != 0)
    {
        label_position(ctx, lst, after, "insert-after");
        auto it = std::find(lst.begin(), lst.end(), after);
        if (it != lst.end() && it + 1 != lst.end())
            w.nonlast_change = true;
        lst.insert(it == lst.end() ? lst.end() : it + 1, id);
    }
    else
        lst.push_back(id);
    w.max_depth = std::max(w.max_depth, w.depth_of(id));
}

// After remove_crate(c) the property admits two outcomes for c's descendants; the model adopts what the library did.
inline void adopt_removal(World& w, int64_t removed, const std::string& where)
{
    auto st = w.subtree(removed);
    std::set<int64_t> survivors;
    for (auto id : st)
        if (w.db.crate_by_id(id))
            survivors.insert(id);
    for (auto& c : w.crates)
    {
        if (!c.live)
            continue;
        if (c.id == removed || (st.count(c.id) && !survivors.count(c.id)))
        {
            c.live = false;
            for (auto it = w.members.begin(); it != w.members.end();)
                it = (it->first == c.id) ? w.members.erase(it) : std::next(it);
            w.entries.erase(c.id);
            erase_from(w.order[c.parent], c.id);
            w.order.erase(c.id);
        }
    }
    for (auto& c : w.crates)
    {
        if (!c.live || !survivors.count(c.id))
            continue;
        // a surviving descendant: its parent must now be absent or a live crate; adopt it
        auto p = c.handle.parent();
        int64_t pid = p ? p->id() : 0;
        VF_CHECK(pid == 0 || w.by_id(pid), where << ": after remove_crate(" << removed << ") surviving crate " << c.id << " has the removed/unknown parent " << pid);
        if (pid != c.parent)
        {
            erase_from(w.order[c.parent], c.id);
            c.parent = pid;
            w.order[pid].push_back(c.id);  // position among the new siblings is not specified
        }
    }
}

struct OpResult
{
    bool did = false;
};

// One operation decoded from a record and applied to library and model. Throws vf::Fail on an outcome the property forbids.

// ---- the decoy library (see World::Decoy)
inline void start_decoy(World& w, S& h, Ctx& ctx)
{
    if (h.below(3) != 0)
        return;
    auto& d = w.decoy;
    d.db = e::create_temporary_database(w.schema);
    for (int i = 0; i < 4; ++i)
    {
        std::string name = "decoy-" + std::to_string(i);
        d.crates.push_back(i == 3 ? d.crates[0].create_sub_crate(name) : d.db->create_root_crate(name));
        d.names.push_back(name);
    }
    for (int i = 0; i < 3; ++i)
    {
        dj::track_snapshot snap;
        snap.relative_path = "decoy/d" + std::to_string(i) + ".mp3";
        snap.title = "decoy title " + std::to_string(i);
        d.tracks.push_back(d.db->create_track(snap));
    }
    d.crates[0].add_track(d.tracks[0]);
    d.crates[1].add_track(d.tracks[0]);
    d.crates[1].add_track(d.tracks[1]);
    d.members = {{0, 0}, {1, 0}, {1, 1}};
    w.hist += " | decoy library opened";
    ctx.label("decoy-library");
}
inline void check_decoy(World& w, const std::string& where)
{
    auto& d = w.decoy;
    if (!d.db)
        return;
    VF_CHECK(d.db->crates().size() == d.crates.size(), where << ": the second library open in the same process now has " << d.db->crates().size() << " crates, "
                                                             << d.crates.size() << " were created in it");
    for (size_t i = 0; i < d.crates.size(); ++i)
    {
        VF_CHECK(d.crates[i].is_valid() && d.crates[i].name() == d.names[i],
                 where << ": crate " << d.crates[i].id() << " of the second library open in the same process reads back as '" << d.crates[i].name() << "', written '" << d.names[i] << "'");
        std::vector<int64_t> want;
        for (size_t t = 0; t < d.tracks.size(); ++t)
            if (d.members.count({i, t}))
                want.push_back(d.tracks[t].id());
        auto got = sorted(ids_of(d.crates[i].tracks()));
        VF_CHECK(got == sorted(want), where << ": tracks(crate " << d.crates[i].id() << ") of the second library open in the same process = " << ids_str(got) << ", expected "
                                            << ids_str(sorted(want)));
    }
    auto p3 = d.crates[3].parent();
    VF_CHECK(p3 && p3->id() == d.crates[0].id(), where << ": parent of the sub-crate of the second library changed");
    VF_CHECK(d.db->tracks().size() == d.tracks.size(), where << ": the second library open in the same process has " << d.db->tracks().size() << " tracks");
}
inline void decoy_step(World& w, S& s, Ctx& ctx)
{
    auto& d = w.decoy;
    if (!d.db || s.below(4) != 0)
        return;
    size_t ci = s.below(d.crates.size()), ti = s.below(d.tracks.size());
    switch (s.below(5))
    {
        case 0:
            d.names[ci] = "decoy-r" + std::to_string(++d.serial);
            d.crates[ci].set_name(d.names[ci]);
            w.hist += " | decoy.rename(" + std::to_string(d.crates[ci].id()) + ")";
            break;
        case 1:
            d.crates[ci].add_track(d.tracks[ti]);
            d.members.insert({ci, ti});
            w.hist += " | decoy.add_track(" + std::to_string(d.crates[ci].id()) + "," + std::to_string(d.tracks[ti].id()) + ")";
            break;
        case 2:
            d.crates[ci].remove_track(d.tracks[ti]);
            d.members.erase({ci, ti});
            w.hist += " | decoy.remove_track(" + std::to_string(d.crates[ci].id()) + "," + std::to_string(d.tracks[ti].id()) + ")";
            break;
        case 3:
            d.tracks[ti].set_title("decoy title r" + std::to_string(++d.serial));
            w.hist += " | decoy.set_title(" + std::to_string(d.tracks[ti].id()) + ")";
            break;
        default:
            (void)d.crates[ci].children();
            (void)d.crates[ci].descendants();
            (void)d.db->root_crates();
            w.hist += " | decoy.read(" + std::to_string(d.crates[ci].id()) + ")";
            break;
    }
    ctx.label("decoy-step");
    check_decoy(w, w.hist);
}

// swaps first and second handles of every live crate for the duration of one operation
struct SecondHandles
{
    World& w;
    bool on;
    SecondHandles(World& w_, bool on_) : w(w_), on(on_) { swap(); }
    ~SecondHandles() { swap(); }
    void swap()
    {
        if (on)
            for (auto& c : w.crates)
                if (c.second)
                    std::swap(c.handle, *c.second);
    }
};
inline void apply_crate_op_impl(World& w, S& s, Ctx& ctx, int mask);
inline void apply_crate_op(World& w, S& s, Ctx& ctx, int mask)
{
    decoy_step(w, s, ctx);
    bool via_second = s.below(3) == 0;
    size_t ncr = w.crates.size();
    {
        SecondHandles sh(w, via_second);
        apply_crate_op_impl(w, s, ctx, mask);
        // crates adopted during this operation got their own pair already; they must not be swapped back
        if (via_second)
            for (size_t i = ncr; i < w.crates.size(); ++i)
                if (w.crates[i].second)
                    std::swap(w.crates[i].handle, *w.crates[i].second);
    }
    if (via_second)
    {
        w.hist += " (via second handles)";
        ctx.label("ops-via-second-handles");
    }
}
inline void apply_crate_op_impl(World& w, S& s, Ctx& ctx, int mask)
{
    auto lc = w.live_crates();
    auto lt = w.live_tracks();
    std::vector<int> menu;
    if (mask & OPS_FOREST)
        menu.insert(menu.end(), {0, 0, 1, 1, 1, 2, 2, 3, 3, 4});
    if (mask & OPS_AFTER)
        menu.insert(menu.end(), {5, 6, 6});
    if (mask & OPS_MEMBERS)
        menu.insert(menu.end(), {7, 7, 8, 9, 9, 9, 9, 10, 10, 11});
    if ((mask & OPS_MEMBERS) && !(mask & OPS_FOREST))
        menu.insert(menu.end(), {0, 1, 4});
    int op = menu[s.below(menu.size())];
    auto pick_crate = [&]() -> CrateM* { return lc.empty() ? nullptr : &w.crates[lc[s.below(lc.size())]]; };
    auto pick_track = [&]() -> TrackM* { return lt.empty() ? nullptr : &w.tracks[lt[s.below(lt.size())]]; };
    std::string where;
    auto expect_throw_unchanged = [&](const std::string& what, std::function<void()> fn)
    {
        bool threw = false;
        try
        {
            fn();
        }
        catch (const std::exception&)
        {
            threw = true;
        }
        VF_CHECK(threw, w.hist << ": " << what << " was accepted");
    };
    switch (op)
    {
        case 0:
        case 5:
        {  // create root crate (optionally after a given root sibling)
            std::string name = gen_crate_name(s, ctx, w);
            CrateM* after = nullptr;
            if (op == 5)
            {
                std::vector<CrateM*> roots;
                for (auto i : lc)
                    if (w.crates[i].parent == 0)
                        roots.push_back(&w.crates[i]);
                if (roots.empty())
                    return;
                after = roots[s.below(roots.size())];
            }
            w.hist += " | create_root" + std::string(after ? "_after(" + std::to_string(after->id) + ")" : "") + " " + hexs(name);
            ctx.label(std::string(w.v2 ? "2.x:" : "1.x:") + (after ? "create_root_crate_after" : "create_root_crate"));
            if (!valid_crate_name(name))
            {
                expect_throw_unchanged("invalid crate name " + hexs(name), [&] { after ? w.db.create_root_crate_after(name, after->handle) : w.db.create_root_crate(name); });
                return;
            }
            bool dup = w.sibling_name_exists(0, name);
            try
            {
                dj::crate cr = after ? w.db.create_root_crate_after(name, after->handle) : w.db.create_root_crate(name);
                adopt_new_crate(w, ctx, cr, name, 0, (after && w.v2) ? after->id : 0, w.hist);
                w.hist += "=" + std::to_string(cr.id());
            }
            catch (const vf::Fail&)
            {
                throw;
            }
            catch (const std::exception& ex)
            {
                VF_CHECK(dup, w.hist << ": creating a root crate with a fresh valid name threw: " << ex.what());
                ctx.label("duplicate-name-rejected");
            }
            return;
        }
        case 1:
        case 6:
        {
            CrateM* p = pick_crate();
            if (!p)
                return;
            std::string name = gen_crate_name(s, ctx, w);
            CrateM* after = nullptr;
            if (op == 6)
            {
                std::vector<CrateM*> sibs;
                for (auto i : lc)
                    if (w.crates[i].parent == p->id)
                        sibs.push_back(&w.crates[i]);
                if (sibs.empty())
                    return;
                after = sibs[s.below(sibs.size())];
            }
            w.hist += " | create_sub" + std::string(after ? "_after(" + std::to_string(after->id) + ")" : "") + "(" + std::to_string(p->id) + ") " + hexs(name);
            ctx.label(std::string(w.v2 ? "2.x:" : "1.x:") + (after ? "create_sub_crate_after" : "create_sub_crate"));
            if (!valid_crate_name(name))
            {
                expect_throw_unchanged("invalid crate name " + hexs(name), [&] { after ? p->handle.create_sub_crate_after(name, after->handle) : p->handle.create_sub_crate(name); });
                return;
            }
            bool dup = w.sibling_name_exists(p->id, name);
            int64_t pid = p->id;
            try
            {
                dj::crate cr = after ? p->handle.create_sub_crate_after(name, after->handle) : p->handle.create_sub_crate(name);
                adopt_new_crate(w, ctx, cr, name, pid, (after && w.v2) ? after->id : 0, w.hist);
                w.hist += "=" + std::to_string(cr.id());
            }
            catch (const vf::Fail&)
            {
                throw;
            }
            catch (const std::exception& ex)
            {
                VF_CHECK(dup, w.hist << ": creating a sub-crate with a fresh valid name threw: " << ex.what());
                ctx.label("duplicate-name-rejected");
            }
            return;
        }
        case 2:
        {
            CrateM* c = pick_crate();
            if (!c)
                return;
            std::string name = gen_crate_name(s, ctx, w);
            w.hist += " | set_name(" + std::to_string(c->id) + ") " + hexs(name);
            ctx.label(std::string(w.v2 ? "2.x:" : "1.x:") + "set_name");
            if (!valid_crate_name(name))
            {
                expect_throw_unchanged("invalid crate name " + hexs(name), [&] { c->handle.set_name(name); });
                return;
            }
            bool dup = w.sibling_name_exists(c->parent, name, c->id);
            bool nonleaf = !w.subtree(c->id).empty();
            try
            {
                c->handle.set_name(name);
                c->name = name;
                if (nonleaf)
                    w.structural_on_nonleaf = true;
                if (nonleaf && w.depth_of(c->id) + 1 < w.max_depth + 1 && w.subtree(c->id).size() >= 2)
                    ctx.label("rename-above-grandchildren");
            }
            catch (const vf::Fail&)
            {
                throw;
            }
            catch (const std::exception& ex)
            {
                VF_CHECK(dup, w.hist << ": renaming to a fresh valid name threw: " << ex.what());
                ctx.label("duplicate-name-rejected");
            }
            return;
        }
        case 3:
        {
            CrateM* c = pick_crate();
            if (!c)
                return;
            CrateM* t = s.below(4) == 0 ? nullptr : pick_crate();
            {
                // bias towards the interesting shapes: move a crate that has descendants, and aim at one of them now and then
                uint64_t bias = s.below(6);
                if (bias >= 4)
                    for (auto i : lc)
                    {   // once ids no longer grow with depth, aim at that shape much more often
                        auto sub_i = w.subtree(w.crates[i].id);
                        if (!sub_i.empty() && *sub_i.begin() < w.crates[i].id)
                            bias = 0;
                    }
                if (bias <= 2)
                    for (auto i : lc)
                        if (!w.subtree(w.crates[i].id).empty() && (bias == 0 || s.coin()))
                        {
                            c = &w.crates[i];
                            break;
                        }
                if (bias == 0)
                    for (auto i : lc)
                    {   // a crate that has an OLDER crate (smaller id) somewhere below it, the result of an earlier older-under-newer move
                        auto sub_i = w.subtree(w.crates[i].id);
                        if (!sub_i.empty() && *sub_i.begin() < w.crates[i].id && s.coin())
                        {
                            c = &w.crates[i];
                            break;
                        }
                    }
                auto sub = w.subtree(c->id);
                if (bias == 0 && !sub.empty())
                {
                    auto it = sub.begin();
                    if (!(*it < c->id && s.coin()))   // half of the time the oldest descendant when it is older than the crate itself
                        std::advance(it, s.below(sub.size()));
                    t = w.by_id(*it);
                }
                if (bias == 3 && lc.size() >= 2)
                {   // a legal move of an older crate under a newer one (ids then no longer grow with depth)
                    CrateM* newest = &w.crates[lc.back()];
                    for (auto i : lc)
                        if (w.crates[i].id > newest->id)
                            newest = &w.crates[i];
                    std::vector<CrateM*> older;
                    for (auto i : lc)
                        if (w.crates[i].id < newest->id && !w.subtree(w.crates[i].id).count(newest->id))
                            older.push_back(&w.crates[i]);
                    if (!older.empty())
                    {
                        c = older[s.below(older.size())];
                        t = newest;
                    }
                }
            }
            int64_t tid = t ? t->id : 0;
            w.hist += " | set_parent(" + std::to_string(c->id) + " -> " + std::to_string(tid) + ")";
            ctx.label(std::string(w.v2 ? "2.x:" : "1.x:") + "set_parent");
            auto st = w.subtree(c->id);
            bool cycle = t && (t->id == c->id || st.count(t->id));
            if (cycle)
            {
                w.cycle_attempt = true;
                ctx.label("cycle-attempt");
                if (t->id < c->id)
                    ctx.label(std::string(w.v2 ? "2.x:" : "1.x:") + "cycle-attempt:onto-older-descendant");
                if (t->id != c->id && ctx.exclude(w.v2 ? "v2_set_parent_to_descendant" : "v1_set_parent_to_descendant"))
                    return;
                expect_throw_unchanged("re-parenting crate " + std::to_string(c->id) + " under itself/its descendant " + std::to_string(tid),
                                       [&] { c->handle.set_parent(t->handle); });
                return;
            }
            bool dup = w.sibling_name_exists(tid, c->name, c->id);
            auto& oldlist = w.order[c->parent];
            if (tid != c->parent)
                label_position(ctx, oldlist, c->id, "move");
            bool was_last = !oldlist.empty() && oldlist.back() == c->id;
            if (!w.v2 && !st.empty() && ctx.exclude("v1_set_parent_with_descendants"))
                return;
            try
            {
                if (t)
                    c->handle.set_parent(t->handle);
                else
                    c->handle.set_parent(std::nullopt);
                if (!st.empty())
                    w.structural_on_nonleaf = true;
                if (!was_last)
                {
                    w.nonlast_change = true;
                    ctx.label("move-non-last-sibling");
                }
                if (w.order[tid].empty())
                    ctx.label("move-into-empty-parent");
                if (t && c->id < t->id)
                    ctx.label("move:older-under-newer");
                if (tid != c->parent)
                {
                    erase_from(w.order[c->parent], c->id);
                    c->parent = tid;
                    w.order[tid].push_back(c->id);
                }
                else
                {
                    // same parent: position may stay or move to the end; adopt what the library reports below in check_order
                    auto got = tid == 0 ? ids_of(w.db.root_crates()) : ids_of(t->handle.children());
                    auto cur = w.order[tid];
                    auto moved = cur;
                    erase_from(moved, c->id);
                    moved.push_back(c->id);
                    if (got == moved)
                        w.order[tid] = moved;
                }
                w.max_depth = std::max(w.max_depth, w.depth_of(c->id) + (st.empty() ? 0 : 1));
            }
            catch (const vf::Fail&)
            {
                throw;
            }
            catch (const std::exception& ex)
            {
                VF_CHECK(dup, w.hist << ": a legal re-parenting threw: " << ex.what());
                ctx.label("duplicate-name-rejected");
            }
            return;
        }
        case 4:
        {
            CrateM* c = pick_crate();
            if (!c)
                return;
            int64_t id = c->id;
            bool nonleaf = !w.subtree(id).empty();
            bool has_members = false;
            for (auto& m : w.members)
                has_members = has_members || m.first == id;
            w.hist += " | remove_crate(" + std::to_string(id) + ")";
            ctx.label(std::string(w.v2 ? "2.x:" : "1.x:") + "remove_crate");
            auto& lst = w.order[c->parent];
            if (!lst.empty() && lst.back() != id)
                w.nonlast_change = true;
            label_position(ctx, lst, id, "remove-sibling");
            dj::crate h = c->handle;
            try
            {
                w.db.remove_crate(h);
            }
            catch (const vf::Fail&)
            {
                throw;
            }
            catch (const std::exception& ex)
            {
                VF_CHECK(false, w.hist << ": remove_crate of a live crate threw: " << ex.what());
            }
            VF_CHECK(!w.db.crate_by_id(id), w.hist << ": crate_by_id still finds the removed crate " << id);
            adopt_removal(w, id, w.hist);
            if (nonleaf)
            {
                w.structural_on_nonleaf = true;
                ctx.label("remove-with-subtree");
            }
            if (has_members)
            {
                w.removed_member_crate = true;
                ctx.label("remove-crate-with-members");
            }
            return;
        }
        case 7:
        {
            dj::track_snapshot snap;
            snap.relative_path = "music/t" + std::to_string(++w.serial) + ".mp3";
            snap.title = "t" + std::to_string(w.serial);
            dj::track tr = w.db.create_track(snap);
            int64_t id = tr.id();
            for (auto& t : w.tracks)
                VF_CHECK(!(t.live && t.id == id), w.hist << ": new track got the id of a live track " << id);
            if (w.issued_track_ids.count(id))
            {
                VF_CHECK(!w.v2 && ctx.exclude("v1_entity_id_reissued"), w.hist << ": track id " << id << " of a removed track was issued again");
                w.recreated_track = true;
                ctx.label("track-id-reissued");
            }
            if (!w.tracks.empty() && std::any_of(w.tracks.begin(), w.tracks.end(), [](const TrackM& t) { return !t.live; }))
                ctx.label("track-created-after-removal");
            w.issued_track_ids.insert(id);
            w.tracks.push_back(TrackM{tr, id, true});
            w.hist += " | create_track=" + std::to_string(id);
            ctx.label(std::string(w.v2 ? "2.x:" : "1.x:") + "create_track");
            return;
        }
        case 8:
        {
            TrackM* t = pick_track();
            if (!t)
                return;
            bool member = false;
            for (auto& m : w.members)
                member = member || m.second == t->id;
            w.hist += " | remove_track(" + std::to_string(t->id) + ")";
            ctx.label(std::string(w.v2 ? "2.x:" : "1.x:") + "remove_track");
            if (member && ctx.exclude("remove_track_leaves_memberships"))
            {
                // known finding routed around: detach the track from every crate first
                for (auto it = w.members.begin(); it != w.members.end();)
                {
                    if (it->second == t->id)
                    {
                        CrateM* c = w.by_id(it->first);
                        c->handle.remove_track(t->handle);
                        erase_from(w.entries[it->first], t->id);
                        it = w.members.erase(it);
                    }
                    else
                        ++it;
                }
                member = false;
            }
            w.db.remove_track(t->handle);
            t->live = false;
            for (auto it = w.members.begin(); it != w.members.end();)
            {
                if (it->second == t->id)
                {
                    erase_from(w.entries[it->first], t->id);
                    it = w.members.erase(it);
                }
                else
                    ++it;
            }
            if (member)
            {
                w.removed_member = true;
                ctx.label("remove-member-track");
            }
            return;
        }
        case 9:
        {
            CrateM* c = pick_crate();
            TrackM* t = pick_track();
            if (!c || !t)
                return;
            bool by_id = s.coin();
            bool already = w.members.count({c->id, t->id}) != 0;
            w.hist += " | add_track(" + std::to_string(c->id) + "," + std::to_string(t->id) + (by_id ? ",by-id" : "") + ")";
            ctx.label(std::string(w.v2 ? "2.x:" : "1.x:") + (by_id ? "add_track(id)" : "add_track(track)"));
            if (already)
                ctx.label("add-existing-member");
            if (c->id != t->id)
                w.diverged_ids = true;
            // sometimes through the range form add_tracks(first, last), with up to two more tracks (possibly repeated or already present)
            std::vector<TrackM*> more;
            if (!by_id && s.below(4) == 3)
            {
                for (size_t k = 1 + s.below(2); k > 0; --k)
                    if (TrackM* x = pick_track())
                        more.push_back(x);
                ctx.label("add_tracks(range)");
                w.hist += "+range";
                for (auto x : more)
                    w.hist += "," + std::to_string(x->id);
            }
            try
            {
                if (by_id)
                    c->handle.add_track(t->id);
                else if (!more.empty())
                {
                    std::vector<dj::track> range{t->handle};
                    for (auto x : more)
                        range.push_back(x->handle);
                    c->handle.add_tracks(range.begin(), range.end());
                }
                else
                    c->handle.add_track(t->handle);
            }
            catch (const vf::Fail&)
            {
                throw;
            }
            catch (const std::exception& ex)
            {
                VF_CHECK(false, w.hist << ": add_track threw: " << ex.what());
            }
            if (!already)
            {
                w.members.insert({c->id, t->id});
                w.entries[c->id].push_back(t->id);
            }
            for (auto x : more)
                if (!w.members.count({c->id, x->id}))
                {
                    w.members.insert({c->id, x->id});
                    w.entries[c->id].push_back(x->id);
                    if (c->id != x->id)
                        w.diverged_ids = true;
                }
            else if (!w.v2)
            {
                // 1.x re-adds (delete + insert): listing order is not specified there
            }
            return;
        }
        case 10:
        {
            CrateM* c = pick_crate();
            TrackM* t = pick_track();
            if (!c || !t)
                return;
            bool is_member = w.members.count({c->id, t->id}) != 0;
            w.hist += " | remove_track_from_crate(" + std::to_string(c->id) + "," + std::to_string(t->id) + ")";
            ctx.label(std::string(w.v2 ? "2.x:" : "1.x:") + "crate::remove_track");
            if (!is_member)
                ctx.label("remove-non-member");
            auto& ent = w.entries[c->id];
            if (is_member)
                label_position(ctx, ent, t->id, "remove-entity");
            if (is_member && !ent.empty() && ent.back() != t->id && ent.size() >= 3)
            {
                w.nonlast_change = true;
                ctx.label("remove-middle-entity");
            }
            try
            {
                c->handle.remove_track(t->handle);
            }
            catch (const vf::Fail&)
            {
                throw;
            }
            catch (const std::exception& ex)
            {
                VF_CHECK(false, w.hist << ": crate::remove_track threw: " << ex.what());
            }
            w.members.erase({c->id, t->id});
            erase_from(ent, t->id);
            return;
        }
        default:
        {
            CrateM* c = pick_crate();
            if (!c)
                return;
            w.hist += " | clear_tracks(" + std::to_string(c->id) + ")";
            ctx.label(std::string(w.v2 ? "2.x:" : "1.x:") + "clear_tracks");
            c->handle.clear_tracks();
            for (auto it = w.members.begin(); it != w.members.end();)
                it = (it->first == c->id) ? w.members.erase(it) : std::next(it);
            w.entries[c->id].clear();
            return;
        }
    }
}

inline e::engine_schema pick_schema(S& h, Ctx& ctx, bool v2_only = false)
{
    e::engine_schema schema;
    if (v2_only)
        schema = e::supported_v2_schemas[h.below(e::supported_v2_schemas.size())];
    else
        schema = schemas()[h.below(schemas().size())];
    ctx.label("schema=" + sname(schema));
    ctx.label(is_v2(schema) ? "family=2.x" : "family=1.x");
    return schema;
}

// id-diverging prelude: create and remove a few tracks/crates so that track ids, crate ids and membership row ids differ,
// then leave 1..3 live tracks and 1..3 live crates with some memberships (every step goes through the modelled operations'
// bookkeeping, so the model knows the state)
inline void prelude(World& w, S& h, Ctx& ctx)
{
    size_t burn = h.below(3);
    for (size_t i = 0; i < burn; ++i)
    {
        dj::track_snapshot snap;
        snap.relative_path = "prelude/p" + std::to_string(++w.serial) + ".mp3";
        dj::track t = w.db.create_track(snap);
        w.issued_track_ids.insert(t.id());
        w.tracks.push_back(TrackM{t, t.id(), false});
        w.db.remove_track(t);
    }
    size_t nt = 1 + h.below(3), nc = 1 + h.below(3);
    for (size_t i = 0; i < nt; ++i)
    {
        dj::track_snapshot snap;
        snap.relative_path = "prelude/q" + std::to_string(++w.serial) + ".mp3";
        dj::track t = w.db.create_track(snap);
        w.issued_track_ids.insert(t.id());
        w.tracks.push_back(TrackM{t, t.id(), true});
    }
    for (size_t i = 0; i < nc; ++i)
    {
        std::string name = "P" + std::to_string(++w.serial);
        dj::crate cr = (i == 2 && h.coin()) ? w.crates[0].handle.create_sub_crate(name) : w.db.create_root_crate(name);
        adopt_new_crate(w, ctx, cr, name, (i == 2 && cr.parent()) ? w.crates[0].id : 0, 0, "prelude");
    }
    w.hist += " | prelude(" + std::to_string(burn) + " burnt, " + std::to_string(nt) + " tracks, " + std::to_string(nc) + " crates)";
}

// a forest that is already deep: chains of depth 3..4 whose names come from the colliding pool (so that a crate's name can
// re-occur inside its descendants' names and paths), plus a second root
inline void prelude_deep(World& w, S& h, Ctx& ctx)
{
    static const std::vector<std::string> pool = {"A", "B", "C", "D", "AA", "BA"};
    auto nm = [&] { return pool[h.below(pool.size())]; };
    auto mk_root = [&](const std::string& name) -> CrateM* {
        if (w.sibling_name_exists(0, name))
            return nullptr;
        dj::crate cr = w.db.create_root_crate(name);
        adopt_new_crate(w, ctx, cr, name, 0, 0, "prelude");
        return &w.crates.back();
    };
    auto mk_sub = [&](int64_t parent, const std::string& name) -> int64_t {
        CrateM* p = w.by_id(parent);
        if (!p || w.sibling_name_exists(parent, name))
            return 0;
        dj::crate cr = p->handle.create_sub_crate(name);
        adopt_new_crate(w, ctx, cr, name, parent, 0, "prelude");
        return cr.id();
    };
    CrateM* r = mk_root(nm());
    if (!r)
        return;
    int64_t cur = r->id;
    const int64_t first_root_id = r->id;
    size_t depth = 2 + h.below(3);
    for (size_t i = 1; i < depth && cur; ++i)
    {
        int64_t next = mk_sub(cur, nm());
        if (h.coin())
            mk_sub(cur, nm());  // a sibling on the way down
        cur = next;
    }
    CrateM* last_root = mk_root(nm());
    bool inverted = false;
    if (last_root && h.below(3) == 0)
    {
        // invert the age order: the first (oldest) root with everything below it goes under the newest root, so that a crate has
        // descendants with smaller ids than its own
        CrateM* first = w.by_id(first_root_id);
        CrateM* newest = w.by_id(last_root->id);
        if (first && newest && first->id < newest->id && !w.sibling_name_exists(newest->id, first->name))
        {
            first->handle.set_parent(newest->handle);
            erase_from(w.order[0], first->id);
            first->parent = newest->id;
            w.order[newest->id].push_back(first->id);
            for (auto i : w.live_crates())
                w.max_depth = std::max(w.max_depth, w.depth_of(w.crates[i].id));
            inverted = true;
            ctx.label("prelude:inverted-ages");
        }
    }
    w.hist += " | prelude_deep(" + std::to_string(w.live_crates().size()) + " crates, depth " + std::to_string(w.max_depth) + (inverted ? ", oldest root moved under the newest" : "") + ")";
}

// ------------------------------------------------------------------------------------------------------ C07
inline void prop_c07(const vf::Case& c, Ctx& ctx)
{
    S h(c[0]);
    auto schema = pick_schema(h, ctx);
    World w(schema, e::create_temporary_database(schema));
    w.hist = "schema " + sname(schema);
    check_forest(w, w.hist + " [empty]");
    if (h.coin())
    {
        prelude_deep(w, h, ctx);
        check_forest(w, w.hist);
    }
    start_decoy(w, h, ctx);
    for (size_t r = 1; r < c.size(); ++r)
    {
        S s(c[r]);
        apply_crate_op(w, s, ctx, OPS_FOREST | OPS_AFTER);
        check_forest(w, w.hist);
    }
    check_decoy(w, w.hist + " [end]");
    if (w.max_depth >= 3)
        ctx.label("depth>=3");
    ctx.describe = w.hist;
    ctx.key = w.hist;
    ctx.nontrivial = (w.max_depth >= 2 && w.structural_on_nonleaf) || w.cycle_attempt;
}

// ------------------------------------------------------------------------------------------------------ C07 (bounded-exhaustive)
// Every sequence of exactly L operations from a 42-letter alphabet over at most 4 crates and two colliding names, on three
// representative schemas (1.6.0: Crate table; 1.18.0 OS: Crate view over List; 2.21.2). Invariants are checked after every
// step, so all shorter sequences are covered as prefixes. Case number i is decoded in mixed radix.
static const int C07_ALPHABET = 42;
inline void apply_enum_op(World& w, Ctx& ctx, int d)
{
    auto lc = w.live_crates();
    static const char* names[2] = {"A", "B"};
    auto at = [&](int idx) -> CrateM* { return idx < static_cast<int>(lc.size()) ? &w.crates[lc[idx]] : nullptr; };
    auto create = [&](CrateM* parent, const std::string& name) {
        int64_t pid = parent ? parent->id : 0;
        bool dup = w.sibling_name_exists(pid, name);
        w.hist += std::string(" | create(") + (parent ? std::to_string(pid) : std::string("root")) + "," + name + ")";
        try
        {
            dj::crate cr = parent ? parent->handle.create_sub_crate(name) : w.db.create_root_crate(name);
            adopt_new_crate(w, ctx, cr, name, pid, 0, w.hist);
        }
        catch (const vf::Fail&)
        {
            throw;
        }
        catch (const std::exception& ex)
        {
            VF_CHECK(dup, w.hist << ": create with a fresh name threw: " << ex.what());
        }
    };
    if (d < 2)
    {
        if (lc.size() < 4)
            create(nullptr, names[d]);
        return;
    }
    d -= 2;
    if (d < 8)
    {
        CrateM* p = at(d / 2);
        if (p && lc.size() < 4)
            create(p, names[d % 2]);
        return;
    }
    d -= 8;
    if (d < 8)
    {
        CrateM* c = at(d / 2);
        if (!c)
            return;
        std::string name = names[d % 2];
        bool dup = w.sibling_name_exists(c->parent, name, c->id);
        w.hist += " | rename(" + std::to_string(c->id) + "," + name + ")";
        try
        {
            c->handle.set_name(name);
            c->name = name;
            if (!w.subtree(c->id).empty())
                w.structural_on_nonleaf = true;
        }
        catch (const std::exception& ex)
        {
            VF_CHECK(dup, w.hist << ": rename threw: " << ex.what());
        }
        return;
    }
    d -= 8;
    if (d < 20)
    {
        CrateM* c = at(d / 5);
        if (!c)
            return;
        int ti = d % 5;
        CrateM* t = ti == 4 ? nullptr : at(ti);
        if (ti != 4 && !t)
            return;
        int64_t tid = t ? t->id : 0;
        auto st = w.subtree(c->id);
        w.hist += " | move(" + std::to_string(c->id) + "->" + std::to_string(tid) + ")";
        if (t && (t->id == c->id || st.count(t->id)))
        {
            w.cycle_attempt = true;
            bool threw = false;
            try
            {
                c->handle.set_parent(t->handle);
            }
            catch (const std::exception&)
            {
                threw = true;
            }
            VF_CHECK(threw, w.hist << ": a re-parenting that creates a cycle was accepted");
            return;
        }
        bool dup = w.sibling_name_exists(tid, c->name, c->id);
        try
        {
            if (t)
                c->handle.set_parent(t->handle);
            else
                c->handle.set_parent(std::nullopt);
            if (!st.empty())
                w.structural_on_nonleaf = true;
            if (tid != c->parent)
            {
                erase_from(w.order[c->parent], c->id);
                c->parent = tid;
                w.order[tid].push_back(c->id);
            }
            w.max_depth = std::max(w.max_depth, w.depth_of(c->id) + (st.empty() ? 0 : 1));
        }
        catch (const std::exception& ex)
        {
            VF_CHECK(dup, w.hist << ": a legal re-parenting threw: " << ex.what());
        }
        return;
    }
    d -= 20;
    CrateM* c = at(d);
    if (!c)
        return;
    int64_t id = c->id;
    if (!w.subtree(id).empty())
        w.structural_on_nonleaf = true;
    w.hist += " | remove(" + std::to_string(id) + ")";
    dj::crate h = c->handle;
    w.db.remove_crate(h);
    VF_CHECK(!w.db.crate_by_id(id), w.hist << ": crate_by_id still finds the removed crate");
    adopt_removal(w, id, w.hist);
}
template <int L>
uint64_t c07_enum_total()
{
    uint64_t n = 3;
    for (int i = 0; i < L; ++i)
        n *= C07_ALPHABET;
    return n;
}
template <int L>
void prop_c07_enum(const vf::Case& c, Ctx& ctx)
{
    uint64_t i = c[0].empty() ? 0 : c[0][0];
    static const e::engine_schema reps[3] = {e::engine_schema::schema_1_6_0, e::engine_schema::schema_1_18_0_os, e::engine_schema::schema_2_21_2};
    auto schema = reps[i % 3];
    i /= 3;
    ctx.label("schema=" + sname(schema));
    World w(schema, e::create_temporary_database(schema));
    w.hist = "schema " + sname(schema);
    for (int k = 0; k < L; ++k)
    {
        int d = static_cast<int>(i % C07_ALPHABET);
        i /= C07_ALPHABET;
        size_t before = w.hist.size();
        apply_enum_op(w, ctx, d);
        if (w.hist.size() != before)
            check_forest(w, w.hist);
    }
    ctx.describe = w.hist;
    ctx.key = w.hist;
    ctx.nontrivial = (w.max_depth >= 2 && w.structural_on_nonleaf) || w.cycle_attempt;
}

// ------------------------------------------------------------------------------------------------------ C07 (bounded-exhaustive, applicable operations only)
// The 42-letter alphabet above wastes most of its sequences on letters that name a crate that does not exist. This enumeration
// visits, at every state, only the letters that are applicable there (create root A|B and create sub-crate A|B of live crate k while
// fewer than 4 crates are alive; rename live crate k to A|B; move live crate k under live crate j or to the root; remove live crate k):
// 2 / 9 / 18 / 29 / 32 letters with 0 / 1 / 2 / 3 / 4 live crates. Case i is decoded in mixed radix with the radix of depth k being
// the largest number of applicable letters any state at that depth can have (so every sequence of applicable letters of length <= L
// from the empty library is visited; a digit beyond the applicable letters of the state actually reached ends the case early and
// is counted as skipped). Shorter sequences are covered as prefixes.
static const int C07_RADIX[5] = {2, 9, 18, 29, 32};
inline std::vector<int> applicable_enum_ops(World& w)
{
    int n = static_cast<int>(w.live_crates().size());
    std::vector<int> out;
    for (int d = 0; d < C07_ALPHABET; ++d)
    {
        bool ok;
        if (d < 2)
            ok = n < 4;
        else if (d < 10)
            ok = n < 4 && (d - 2) / 2 < n;
        else if (d < 18)
            ok = (d - 10) / 2 < n;
        else if (d < 38)
            ok = (d - 18) / 5 < n && ((d - 18) % 5 == 4 || (d - 18) % 5 < n);
        else
            ok = d - 38 < n;
        if (ok)
            out.push_back(d);
    }
    return out;
}
inline uint64_t c07_dfs_total(int L, int nschemas)
{
    uint64_t n = nschemas;
    for (int i = 0; i < L; ++i)
        n *= C07_RADIX[std::min(i, 4)];
    return n;
}
inline void prop_c07_dfs_impl(const vf::Case& c, Ctx& ctx, int L, bool all_schemas)
{
    uint64_t i = c[0].empty() ? 0 : c[0][0];
    static const e::engine_schema reps[3] = {e::engine_schema::schema_1_6_0, e::engine_schema::schema_1_18_0_os, e::engine_schema::schema_2_21_2};
    e::engine_schema schema;
    if (all_schemas)
    {
        auto& all = e::supported_schemas;
        size_t ns = std::distance(all.begin(), all.end());
        auto it = all.begin();
        std::advance(it, i % ns);
        schema = *it;
        i /= ns;
    }
    else
    {
        schema = reps[i % 3];
        i /= 3;
    }
    ctx.label("schema=" + sname(schema));
    World w(schema, e::create_temporary_database(schema));
    w.hist = "schema " + sname(schema);
    int done = 0;
    for (int k = 0; k < L; ++k)
    {
        int radix = C07_RADIX[std::min(k, 4)];
        int digit = static_cast<int>(i % radix);
        i /= radix;
        auto ops = applicable_enum_ops(w);
        VF_CHECK(static_cast<int>(ops.size()) <= radix, w.hist << ": enumeration radix too small (harness defect)");
        if (digit >= static_cast<int>(ops.size()))
            break;
        size_t before = w.hist.size();
        apply_enum_op(w, ctx, ops[digit]);
        VF_CHECK(w.hist.size() != before, w.hist << ": applicable letter was a no-op (harness defect)");
        check_forest(w, w.hist);
        ++done;
    }
    ctx.label(done == L ? "enum:full-length" : "enum:skipped");
    ctx.label("live-crates=" + std::to_string(w.live_crates().size()));
    if (w.max_depth >= 3)
        ctx.label("depth>=3");
    if (w.cycle_attempt)
        ctx.label("cycle-attempt");
    ctx.describe = w.hist;
    ctx.key = w.hist;
    ctx.nontrivial = done == L && ((w.max_depth >= 2 && w.structural_on_nonleaf) || w.cycle_attempt);
}
inline void prop_c07_dfs4(const vf::Case& c, Ctx& ctx) { prop_c07_dfs_impl(c, ctx, 4, false); }
inline void prop_c07_dfs5(const vf::Case& c, Ctx& ctx) { prop_c07_dfs_impl(c, ctx, 5, false); }
inline void prop_c07_dfs4all(const vf::Case& c, Ctx& ctx) { prop_c07_dfs_impl(c, ctx, 4, true); }

// ------------------------------------------------------------------------------------------------------ C08
inline void prop_c08(const vf::Case& c, Ctx& ctx)
{
    S h(c[0]);
    auto schema = pick_schema(h, ctx);
    World w(schema, e::create_temporary_database(schema));
    w.hist = "schema " + sname(schema);
    prelude(w, h, ctx);
    start_decoy(w, h, ctx);
    for (size_t r = 1; r < c.size(); ++r)
    {
        S s(c[r]);
        apply_crate_op(w, s, ctx, OPS_MEMBERS);
        check_members(w, w.hist);
    }
    check_decoy(w, w.hist + " [end]");
    if (w.diverged_ids)
        ctx.label("diverged-ids");
    ctx.describe = w.hist;
    ctx.key = w.hist;
    ctx.nontrivial = w.diverged_ids && (w.removed_member || w.removed_member_crate);
}

// ------------------------------------------------------------------------------------------------------ C09
inline void prop_c09(const vf::Case& c, Ctx& ctx)
{
    S h(c[0]);
    auto schema = pick_schema(h, ctx, true);
    World w(schema, e::create_temporary_database(schema));
    w.hist = "schema " + sname(schema);
    {
        // start from lists long enough to have a first, a middle and a last element
        size_t nr = 2 + h.below(4), ns = h.below(5), nt = h.below(6);
        for (size_t i = 0; i < nr; ++i)
        {
            std::string name = "R" + std::to_string(++w.serial);
            adopt_new_crate(w, ctx, w.db.create_root_crate(name), name, 0, 0, "prelude");
        }
        for (size_t i = 0; i < ns; ++i)
        {
            std::string name = "S" + std::to_string(++w.serial);
            adopt_new_crate(w, ctx, w.crates[0].handle.create_sub_crate(name), name, w.crates[0].id, 0, "prelude");
        }
        for (size_t i = 0; i < nt; ++i)
        {
            dj::track_snapshot snap;
            snap.relative_path = "prelude/o" + std::to_string(++w.serial) + ".mp3";
            dj::track t = w.db.create_track(snap);
            w.issued_track_ids.insert(t.id());
            w.tracks.push_back(TrackM{t, t.id(), true});
            w.crates[1].handle.add_track(t);
            w.members.insert({w.crates[1].id, t.id()});
            w.entries[w.crates[1].id].push_back(t.id());
        }
        w.hist += " | prelude(" + std::to_string(nr) + " roots, " + std::to_string(ns) + " subs of " + std::to_string(w.crates[0].id) + ", " + std::to_string(nt) +
                  " tracks in crate " + std::to_string(w.crates[1].id) + ")";
        check_order(w, w.hist);
    }
    start_decoy(w, h, ctx);
    for (size_t r = 1; r < c.size(); ++r)
    {
        S s(c[r]);
        apply_crate_op(w, s, ctx, OPS_FOREST | OPS_AFTER | OPS_MEMBERS);
        check_order(w, w.hist);
        check_forest(w, w.hist);
    }
    check_decoy(w, w.hist + " [end]");
    ctx.describe = w.hist;
    ctx.key = w.hist;
    ctx.nontrivial = w.nonlast_change;
}
}  // namespace api
