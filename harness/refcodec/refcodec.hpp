// Independent, table-driven implementation of the Engine performance-data blob layouts (DESIGN.md appendix B).
// Shares no code with libdjinterop: one generic reader and one generic writer interpret a declarative layout;
// framing uses zlib's one-shot API and *verifies* the length prefix.
#pragma once
#include <zlib.h>

#include <cstdint>
#include <cstring>
#include <stdexcept>
#include <string>
#include <vector>

namespace ref
{
using Bytes = std::vector<uint8_t>;

enum class T
{
    U8,
    I32BE,
    I32LE,
    I64BE,
    I64LE,
    F64BE,
    F64LE
};

inline int width(T t)
{
    switch (t)
    {
        case T::U8: return 1;
        case T::I32BE:
        case T::I32LE: return 4;
        default: return 8;
    }
}
inline bool little(T t) { return t == T::I32LE || t == T::I64LE || t == T::F64LE; }

struct Item
{
    enum K
    {
        SCALAR,
        LABEL,   // u8 length + bytes
        GROUP,   // own count field of type t (count_from < 0) or count taken from an earlier scalar
        TAIL     // everything up to the end of the payload
    } k;
    T t = T::U8;
    std::vector<Item> sub;
    int count_from = -1;  // index into the token list of the scalar holding the count
    const char* name = "";
};

// A decoded payload is a flat token list in layout order. A GROUP contributes one token holding the declared
// count (only if it has its own count field) followed by the entries' tokens.
struct Tok
{
    uint64_t v = 0;   // scalar bit pattern (sign-extended for signed types), or declared count
    std::string s;    // LABEL / TAIL bytes
    bool str = false;
    bool operator==(const Tok& o) const { return v == o.v && s == o.s && str == o.str; }
    bool operator!=(const Tok& o) const { return !(*this == o); }
};
using Toks = std::vector<Tok>;

inline Tok sc(uint64_t v)
{
    Tok t;
    t.v = v;
    return t;
}
inline Tok st(const std::string& s)
{
    Tok t;
    t.s = s;
    t.str = true;
    return t;
}
inline uint64_t f2u(double d)
{
    uint64_t u;
    memcpy(&u, &d, 8);
    return u;
}
inline double u2f(uint64_t u)
{
    double d;
    memcpy(&d, &u, 8);
    return d;
}

struct Malformed : std::runtime_error
{
    using std::runtime_error::runtime_error;
};

// ------------------------------------------------------------------------------------------- writer
inline void put(Bytes& out, T t, uint64_t v)
{
    int w = width(t);
    for (int i = 0; i < w; ++i)
    {
        int shift = little(t) ? 8 * i : 8 * (w - 1 - i);
        out.push_back(static_cast<uint8_t>(v >> shift));
    }
}

struct Writer
{
    const Toks& toks;
    size_t pos = 0;
    Bytes out;
    // declared_count_override >= 0: write this value into the count field but emit `actual` entries
    const Tok& next()
    {
        if (pos >= toks.size())
            throw Malformed("writer ran out of tokens");
        return toks[pos++];
    }
    void items(const std::vector<Item>& layout, const Toks& all, size_t base)
    {
        for (auto& it : layout)
        {
            switch (it.k)
            {
                case Item::SCALAR: put(out, it.t, next().v); break;
                case Item::LABEL:
                {
                    const Tok& t = next();
                    if (t.s.size() > 255)
                        throw Malformed("label longer than 255 bytes cannot be represented");
                    out.push_back(static_cast<uint8_t>(t.s.size()));
                    out.insert(out.end(), t.s.begin(), t.s.end());
                    break;
                }
                case Item::GROUP:
                {
                    uint64_t n;
                    if (it.count_from < 0)
                    {
                        n = next().v;
                        put(out, it.t, n);
                    }
                    else
                        n = all[base + it.count_from].v;
                    for (uint64_t i = 0; i < n; ++i)
                        items(it.sub, all, base);
                    break;
                }
                case Item::TAIL:
                {
                    const Tok& t = next();
                    out.insert(out.end(), t.s.begin(), t.s.end());
                    break;
                }
            }
        }
    }
};

inline Bytes write_payload(const std::vector<Item>& layout, const Toks& toks)
{
    Writer w{toks};
    w.items(layout, toks, 0);
    if (w.pos != toks.size())
        throw Malformed("writer: unused tokens");
    return std::move(w.out);
}

// ------------------------------------------------------------------------------------------- reader
struct Reader
{
    const Bytes& in;
    size_t pos = 0;
    Toks toks;
    uint64_t get(T t)
    {
        int w = width(t);
        if (in.size() - pos < static_cast<size_t>(w))
            throw Malformed("payload truncated inside a scalar");
        uint64_t v = 0;
        for (int i = 0; i < w; ++i)
        {
            int shift = little(t) ? 8 * i : 8 * (w - 1 - i);
            v |= static_cast<uint64_t>(in[pos + i]) << shift;
        }
        pos += w;
        if (w == 4)
            v = static_cast<uint64_t>(static_cast<int64_t>(static_cast<int32_t>(static_cast<uint32_t>(v))));
        return v;
    }
    void items(const std::vector<Item>& layout)
    {
        for (auto& it : layout)
        {
            switch (it.k)
            {
                case Item::SCALAR: toks.push_back(sc(get(it.t))); break;
                case Item::LABEL:
                {
                    uint64_t n = get(T::U8);
                    if (in.size() - pos < n)
                        throw Malformed("payload truncated inside a label");
                    toks.push_back(st(std::string(in.begin() + pos, in.begin() + pos + n)));
                    pos += n;
                    break;
                }
                case Item::GROUP:
                {
                    int64_t n;
                    if (it.count_from < 0)
                    {
                        n = static_cast<int64_t>(get(it.t));
                        toks.push_back(sc(static_cast<uint64_t>(n)));
                    }
                    else
                        n = static_cast<int64_t>(toks[it.count_from].v);
                    if (n < 0 || static_cast<uint64_t>(n) > in.size())
                        throw Malformed("entry count exceeds payload");
                    for (int64_t i = 0; i < n; ++i)
                        items(it.sub);
                    break;
                }
                case Item::TAIL:
                    toks.push_back(st(std::string(in.begin() + pos, in.end())));
                    pos = in.size();
                    break;
            }
        }
    }
};

inline Toks read_payload(const std::vector<Item>& layout, const Bytes& payload)
{
    Reader r{payload};
    r.items(layout);
    if (r.pos != payload.size())
        throw Malformed("payload has bytes beyond the layout");
    return std::move(r.toks);
}

// ------------------------------------------------------------------------------------------- framing
// 4-byte big-endian signed length of the payload, then ONE zlib stream inflating to exactly that many bytes and
// ending exactly at the end of the blob. Zero-length blob or zero length field = "no data" (empty payload).
inline Bytes frame(const Bytes& payload, int level = Z_DEFAULT_COMPRESSION)
{
    Bytes out(4);
    uint32_t n = static_cast<uint32_t>(payload.size());
    out[0] = n >> 24;
    out[1] = n >> 16;
    out[2] = n >> 8;
    out[3] = n;
    uLongf bound = compressBound(payload.size());
    Bytes z(bound);
    if (compress2(z.data(), &bound, payload.data(), payload.size(), level) != Z_OK)
        throw std::runtime_error("compress2 failed");
    out.insert(out.end(), z.begin(), z.begin() + bound);
    return out;
}

struct Unframed
{
    Bytes payload;
    int64_t prefix = 0;
    bool no_data = false;
};

inline Unframed unframe(const Bytes& blob)
{
    Unframed u;
    if (blob.empty())
    {
        u.no_data = true;
        return u;
    }
    if (blob.size() < 4)
        throw Malformed("blob shorter than its length prefix");
    int32_t n = static_cast<int32_t>((uint32_t(blob[0]) << 24) | (uint32_t(blob[1]) << 16) | (uint32_t(blob[2]) << 8) | blob[3]);
    u.prefix = n;
    if (n == 0)
    {
        u.no_data = true;
        return u;
    }
    if (n < 0)
        throw Malformed("negative length prefix");
    // deflate cannot expand by more than ~1032:1, so a larger prefix can never equal the inflated length
    if (static_cast<uint64_t>(n) > 1040ull * blob.size() + 1024)
        throw Malformed("length prefix exceeds what the stream can inflate to");
    u.payload.resize(static_cast<size_t>(n));
    uLongf dlen = static_cast<uLongf>(n);
    uLong slen = static_cast<uLong>(blob.size() - 4);
    int rc = uncompress2(u.payload.data(), &dlen, blob.data() + 4, &slen);
    if (rc != Z_OK)
        throw Malformed("zlib stream does not inflate into the declared length (rc " + std::to_string(rc) + ")");
    if (dlen != static_cast<uLongf>(n))
        throw Malformed("length prefix " + std::to_string(n) + " != inflated length " + std::to_string(dlen));
    if (slen != blob.size() - 4)
        throw Malformed("bytes after the end of the zlib stream");
    return u;
}

// ------------------------------------------------------------------------------------------- layouts
inline Item S_(T t, const char* n = "") { Item i; i.k = Item::SCALAR; i.t = t; i.name = n; return i; }
inline Item L_() { Item i; i.k = Item::LABEL; return i; }
inline Item TAIL_() { Item i; i.k = Item::TAIL; return i; }
inline Item G_(T count_type, std::vector<Item> sub) { Item i; i.k = Item::GROUP; i.t = count_type; i.sub = std::move(sub); return i; }
inline Item GFROM_(int from, std::vector<Item> sub) { Item i; i.k = Item::GROUP; i.count_from = from; i.sub = std::move(sub); return i; }

inline std::vector<Item> grid_entry() { return {S_(T::F64LE, "sample_offset"), S_(T::I64LE, "beat_number"), S_(T::I32LE, "beats_to_next"), S_(T::I32LE, "unknown")}; }

enum Kind
{
    V2_TRACK_DATA,
    V2_BEAT_DATA,
    V2_QUICK_CUES,
    V2_LOOPS,
    V2_OVERVIEW,
    V1_TRACK_DATA,
    V1_BEAT_DATA,
    V1_HIGH_RES,
    V1_OVERVIEW,
    V1_QUICK_CUES,
    V1_LOOPS,
    KIND_COUNT
};
inline const char* kind_name(int k)
{
    static const char* n[] = {"v2.track_data", "v2.beat_data", "v2.quick_cues", "v2.loops", "v2.overview_waveform", "v1.track_data",
                              "v1.beat_data", "v1.high_res_waveform", "v1.overview_waveform", "v1.quick_cues", "v1.loops"};
    return n[k];
}
inline bool compressed(int k) { return k != V2_LOOPS && k != V1_LOOPS; }

inline const std::vector<Item>& layout(int k)
{
    static std::vector<std::vector<Item>> L = [] {
        std::vector<std::vector<Item>> l(KIND_COUNT);
        l[V2_TRACK_DATA] = {S_(T::F64BE, "sample_rate"), S_(T::I64BE, "samples"), S_(T::I32BE, "key"), S_(T::F64BE, "loud_low"),
                            S_(T::F64BE, "loud_mid"), S_(T::F64BE, "loud_high"), TAIL_()};
        l[V2_BEAT_DATA] = {S_(T::F64BE, "sample_rate"), S_(T::F64BE, "samples"), S_(T::U8, "is_beatgrid_set"), G_(T::I64BE, grid_entry()),
                           G_(T::I64BE, grid_entry()), TAIL_()};
        l[V2_QUICK_CUES] = {G_(T::I64BE, {L_(), S_(T::F64BE, "sample_offset"), S_(T::U8, "a"), S_(T::U8, "r"), S_(T::U8, "g"), S_(T::U8, "b")}),
                            S_(T::F64BE, "adjusted_main_cue"), S_(T::U8, "is_main_cue_adjusted"), S_(T::F64BE, "default_main_cue"), TAIL_()};
        l[V2_LOOPS] = {G_(T::I64LE, {L_(), S_(T::F64LE, "start"), S_(T::F64LE, "end"), S_(T::U8, "is_start_set"), S_(T::U8, "is_end_set"),
                                     S_(T::U8, "a"), S_(T::U8, "r"), S_(T::U8, "g"), S_(T::U8, "b")}),
                       TAIL_()};
        l[V2_OVERVIEW] = {S_(T::I64BE, "n"), S_(T::I64BE, "n2"), S_(T::F64BE, "samples_per_point"),
                          GFROM_(0, {S_(T::U8), S_(T::U8), S_(T::U8)}), S_(T::U8, "max_low"), S_(T::U8, "max_mid"), S_(T::U8, "max_high"), TAIL_()};
        l[V1_TRACK_DATA] = {S_(T::F64BE, "sample_rate"), S_(T::I64BE, "sample_count"), S_(T::F64BE, "average_loudness"), S_(T::I32BE, "key")};
        l[V1_BEAT_DATA] = l[V2_BEAT_DATA];
        l[V1_HIGH_RES] = {S_(T::I64BE, "n"), S_(T::I64BE, "n2"), S_(T::F64BE, "samples_per_entry"),
                          GFROM_(0, {S_(T::U8), S_(T::U8), S_(T::U8), S_(T::U8), S_(T::U8), S_(T::U8)}),
                          S_(T::U8), S_(T::U8), S_(T::U8), S_(T::U8), S_(T::U8), S_(T::U8)};
        l[V1_OVERVIEW] = {S_(T::I64BE, "n"), S_(T::I64BE, "n2"), S_(T::F64BE, "samples_per_entry"),
                          GFROM_(0, {S_(T::U8), S_(T::U8), S_(T::U8)}), S_(T::U8), S_(T::U8), S_(T::U8)};
        l[V1_QUICK_CUES] = l[V2_QUICK_CUES];
        l[V1_QUICK_CUES].pop_back();  // no tail
        l[V1_LOOPS] = l[V2_LOOPS];
        l[V1_LOOPS].pop_back();
        return l;
    }();
    return L[k];
}

inline Bytes encode(int kind, const Toks& toks, int level = Z_DEFAULT_COMPRESSION)
{
    Bytes p = write_payload(layout(kind), toks);
    return compressed(kind) ? frame(p, level) : p;
}
inline Bytes payload_of(int kind, const Bytes& blob)
{
    if (!compressed(kind))
        return blob;
    return unframe(blob).payload;
}
inline Toks decode(int kind, const Bytes& blob)
{
    return read_payload(layout(kind), payload_of(kind, blob));
}
}  // namespace ref
