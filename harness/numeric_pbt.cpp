// C19 (recommended waveform extents) and C20 (beat-grid normalisation): generated inputs against an
// exact-integer reference (unsigned __int128) and an independently written trimming + validity predicate.
#include <cmath>
#include <djinterop/djinterop.hpp>

#include "common/pbt.hpp"

namespace e = djinterop::engine;
using vf::Case;
using vf::Ctx;
using vf::S;
typedef unsigned __int128 u128;

static std::string bits(double d)
{
    uint64_t u;
    memcpy(&u, &d, 8);
    char b[64];
    snprintf(b, sizeof b, "%.17g(0x%016llx)", d, (unsigned long long)u);
    return b;
}

// ------------------------------------------------------------------------------------------ C19
static uint64_t gen_count(S& s, Ctx& ctx, uint64_t q)
{
    static const std::vector<uint64_t> edges = {
        0, 1, 2, 209, 210, 211, 419, 420, 421, 1023, 1024, 1025, 44100, 48000, 96000, (1ull << 31) - 1, 1ull << 31,
        (1ull << 31) + 1, (1ull << 32), (1ull << 53) - 1, 1ull << 53, (1ull << 53) + 1, (1ull << 53) + 2,
        (1ull << 61), (1ull << 62) - 1, 1ull << 62};
    switch (s.below(8))
    {
        case 0: return 0;
        case 1: return edges[s.below(edges.size())];
        case 2:
        {  // multiple of q +- {0,1,q-1}
            if (q == 0)
                return s.below(1000);
            uint64_t k = s.coin() ? s.below(5000) : s.below((1ull << 62) / q);
            uint64_t base = k * q;
            switch (s.below(4))
            {
                case 0: ctx.label("n_mod_q=0"); return base;
                case 1: ctx.label("n_mod_q=1"); return base + 1 <= (1ull << 62) ? base + 1 : base;
                case 2: ctx.label("n_mod_q=q-1"); return base + q - 1 <= (1ull << 62) ? base + q - 1 : base;
                default: return base >= 1 ? base - 1 : 0;
            }
        }
        case 3: return s.below(10 * 60 * 48000ull);   // realistic track lengths
        case 4: return s.below(1ull << 40);
        case 5: return (1ull << 53) - 1000 + s.below(2000);  // around 2^53
        case 6: return (1ull << 53) + s.below((1ull << 62) - (1ull << 53) + 1);
        default: return s.below((1ull << 62) + 1);
    }
}

static double gen_rate(S& s)
{
    static const std::vector<double> edges = {0.0,     1.0,     209.0,   209.999, 210.0,   210.5,  419.0,
                                              419.999, 420.0,   8000.0,  11025.0, 22050.0, 44100.0, 44099.5,
                                              48000.0, 88200.0, 96000.0, 192000.0, 2147483647.0, 2147483648.0,
                                              0.5,     -0.0,    4.9e-324, 629.99999999999989};
    switch (s.below(6))
    {
        case 0: return 44100.0;
        case 1: return edges[s.below(edges.size())];
        case 2: return static_cast<double>(s.below(2000));  // near the q==0 boundary
        case 3:
        {  // k*210 +- tiny
            double k = static_cast<double>(s.below(10226000));
            double base = k * 210.0;
            switch (s.below(3))
            {
                case 0: return base;
                case 1: return std::nextafter(base, 0.0);
                default: return std::nextafter(base, 1e300);
            }
        }
        case 4: return static_cast<double>(s.below(400000)) + static_cast<double>(s.below(1000)) / 1000.0;
        default:
        {
            double r = static_cast<double>(s.below(1ull << 31)) + static_cast<double>(s.below(1 << 20)) / (1 << 20);
            return r > 2147483648.0 ? 2147483648.0 : r;
        }
    }
}

static void prop_c19(const Case& c, Ctx& ctx)
{
    S s(c.empty() ? S::empty() : c[0]);
    double rate = gen_rate(s);
    // reference quantisation number, from the statement: q = 2 * floor(floor(rate) / 210)
    u128 fl = static_cast<u128>(std::floor(rate) < 0 ? 0 : std::floor(rate));
    uint64_t q = static_cast<uint64_t>(2 * (fl / 210));
    uint64_t n = gen_count(s, ctx, q);
    std::ostringstream d;
    d << "extents(sample_count=" << n << ", sample_rate=" << bits(rate) << ") ref_q=" << q;
    ctx.describe = d.str();
    ctx.key = d.str();
    ctx.nontrivial = (q > 0 && n > 0);
    if (n > (1ull << 53))
        ctx.label("n>2^53");
    if (q == 0)
        ctx.label("q=0");
    if (n == 0)
        ctx.label("n=0");

    auto hi = e::calculate_high_resolution_waveform_extents(n, rate);
    auto ov = e::calculate_overview_waveform_extents(n, rate);

    if (n == 0 || q == 0)
    {
        VF_CHECK(hi.size == 0 && hi.samples_per_entry == 0, "high-res extents not empty for no-audio/unquantisable: size="
                                                                 << hi.size << " spe=" << hi.samples_per_entry);
        VF_CHECK(ov.size == 0 && ov.samples_per_entry == 0, "overview extents not empty for no-audio/unquantisable: size="
                                                                 << ov.size << " spe=" << ov.samples_per_entry);
        return;
    }
    // high-res: minimal number of entries of span q covering n, slack < one entry
    VF_CHECK(hi.size > 0, "high-res extents empty although n>0 and q>0");
    VF_CHECK(hi.samples_per_entry == static_cast<double>(q),
             "high-res samples_per_entry " << bits(hi.samples_per_entry) << " != q " << q);
    VF_CHECK(static_cast<u128>(hi.size) * q >= n, "high-res waveform does not cover the track: size=" << hi.size);
    VF_CHECK(static_cast<u128>(hi.size - 1) * q < n, "high-res waveform has >= one entry of slack: size=" << hi.size);
    // overview: exactly 1024 entries spanning n rounded down to q
    VF_CHECK(ov.size == 1024, "overview size " << ov.size << " != 1024");
    uint64_t rounded = n - n % q;
    double expect = static_cast<double>(rounded) / 1024.0;  // division by 2^10 is exact
    if (rounded < (1ull << 53))
        VF_CHECK(ov.samples_per_entry == expect && ov.samples_per_entry * 1024.0 == static_cast<double>(rounded),
                 "overview span " << bits(ov.samples_per_entry) << "*1024 != rounded count " << rounded);
    else
    {
        double lo = std::nextafter(expect, 0.0), hi2 = std::nextafter(expect, 1e300);
        VF_CHECK(ov.samples_per_entry >= lo && ov.samples_per_entry <= hi2,
                 "overview span " << bits(ov.samples_per_entry) << " not within 1ulp of " << bits(expect));
    }
    // monotone in the sample count
    uint64_t steps[3] = {1, q, s.below(100000) + 1};
    for (uint64_t st : steps)
    {
        if (n + st > (1ull << 62))
            continue;
        auto hi_next = e::calculate_high_resolution_waveform_extents(n + st, rate);
        auto ov_next = e::calculate_overview_waveform_extents(n + st, rate);
        VF_CHECK(hi_next.size >= hi.size, "high-res size not monotone: n+" << st << " gives " << hi_next.size << " < " << hi.size);
        VF_CHECK(ov_next.size >= ov.size, "overview size not monotone");
        VF_CHECK(ov_next.samples_per_entry >= ov.samples_per_entry, "overview span not monotone in n (+" << st << ")");
        if (st == q)
            VF_CHECK(hi_next.size == hi.size + 1, "adding one quantum must add exactly one entry: " << hi_next.size << " vs " << hi.size);
    }
}

// ------------------------------------------------------------------------------------------ C20
struct Grid
{
    std::vector<djinterop::beatgrid_marker> m;
    int64_t n;
};

static std::string show(const std::vector<djinterop::beatgrid_marker>& g)
{
    std::ostringstream os;
    os << "[";
    for (size_t i = 0; i < g.size(); ++i)
        os << (i ? " " : "") << "(" << g[i].index << "," << bits(g[i].sample_offset) << ")";
    os << "]";
    return os.str();
}

static Grid gen_grid(S& s, Ctx& ctx)
{
    Grid g;
    static const std::vector<int64_t> ns = {1, 2, 1000, 44100, 13230000, 1ll << 31, 1000000000000ll};
    switch (s.below(4))
    {
        case 0: g.n = 13230000; break;  // 5 min @ 44.1k
        case 1: g.n = ns[s.below(ns.size())]; break;
        case 2: g.n = 1 + static_cast<int64_t>(s.below(50000000)); break;
        default: g.n = 1 + static_cast<int64_t>(s.below(1000000000000ull)); break;
    }
    int shape = static_cast<int>(s.below(10));
    // shapes: 0 plain inside; 1 spans both ends; 2 marker exactly at end; 3 marker exactly at 0;
    // 4 last marker far beyond; 5 all before 0; 6 all after end; 7 empty; 8 single; 9 random placement
    if (shape == 7)
    {
        ctx.label("empty-grid");
        return g;
    }
    size_t count = shape == 8 ? 1 : static_cast<size_t>(s.coin() ? 2 + s.below(4) : 2 + s.below(63));
    // tempo: samples per beat; domain restriction (documented): the normalised indices must fit
    // comfortably in int32, so spb >= n / 2^28 (and >= 16 samples).
    double min_spb = std::max(16.0, static_cast<double>(g.n) / static_cast<double>(1 << 28));
    double spb0 = min_spb + static_cast<double>(s.below(200000)) + (s.coin() ? 0.0 : static_cast<double>(s.below(1000)) / 1000.0);
    bool varying = s.prob(35);
    if (varying)
        ctx.label("varying-tempo");
    int start_index;
    switch (s.below(5))
    {
        case 0: start_index = 0; break;
        case 1: start_index = -4; break;
        case 2: start_index = static_cast<int>(s.between(-3, 64)); break;
        case 3: start_index = static_cast<int>(s.between(-4, 1000000)); break;
        default: start_index = static_cast<int>(s.between(-1000000, 1000000)); break;
    }
    double span_beats_guess = static_cast<double>(count) * 8;
    double start_off;
    double nn = static_cast<double>(g.n);
    switch (shape)
    {
        case 0: start_off = nn * 0.05; break;
        case 1: start_off = -spb0 * static_cast<double>(1 + s.below(40)); break;
        case 2: start_off = 0; break;  // fixed up below
        case 3: start_off = 0; break;
        case 4: start_off = nn * 0.5; break;
        case 5: start_off = -nn - spb0 * span_beats_guess * 20; break;
        case 6: start_off = nn + 1 + static_cast<double>(s.below(100000)); break;
        default: start_off = -nn + 3 * nn * (static_cast<double>(s.below(1000000)) / 1000000.0); break;
    }
    std::vector<int> steps(count, 1);
    for (size_t i = 1; i < count; ++i)
        steps[i] = static_cast<int>(s.coin() ? 1 + s.below(4) : 1 + s.below(256));
    double off = start_off;
    int idx = start_index;
    double spb = spb0;
    for (size_t i = 0; i < count; ++i)
    {
        if (i > 0)
        {
            if (varying)
                spb = std::max(min_spb, spb0 * (0.5 + static_cast<double>(s.below(1000)) / 1000.0));
            // clip so that a few dozen markers stay around the track for the interesting shapes
            double adv = spb * steps[i];
            if ((shape == 0 || shape == 1 || shape == 3) && off + adv > nn && i + 1 < count && s.prob(70))
            {
                // keep inside: shrink step
                steps[i] = 1;
                adv = spb;
            }
            off += adv;
            idx += steps[i];
        }
        g.m.push_back({idx, off});
    }
    if (shape == 2 && count >= 2)
    {  // shift so that marker k is exactly at the end
        size_t k = 1 + s.below(count - 1);
        double delta = nn - g.m[k].sample_offset;
        for (auto& mk : g.m)
            mk.sample_offset += delta;
        if (g.m[k].sample_offset == nn)
            ctx.label("marker-exactly-at-end");
    }
    if (shape == 4 && count >= 2)
    {
        g.m.back().sample_offset = std::max(g.m.back().sample_offset, nn) + spb * static_cast<double>(2 + s.below(100000));
        g.m.back().index += 3;  // keeps indices increasing; tempo of last segment differs, fine
        ctx.label("last-marker-far-beyond");
    }
    // enforce strict monotonicity (domain)
    for (size_t i = 1; i < g.m.size(); ++i)
        if (!(g.m[i].sample_offset > g.m[i - 1].sample_offset))
            g.m[i].sample_offset = std::nextafter(g.m[i - 1].sample_offset, 1e300) + 16;
    return g;
}

static double tempo(const djinterop::beatgrid_marker& a, const djinterop::beatgrid_marker& b)
{
    return (b.sample_offset - a.sample_offset) / (static_cast<double>(b.index) - static_cast<double>(a.index));
}

static bool close_rel(double a, double b, double rel, double abs_eps)
{
    double d = std::fabs(a - b);
    return d <= abs_eps || d <= rel * std::max(std::fabs(a), std::fabs(b));
}

// Independent trimming. A marker lying exactly on the end of the track may be read either as the last
// interior marker (reading A: interior = (0, n], anchor = first marker > n) or as the closing anchor itself
// (reading B: interior = (0, n), anchor = first marker >= n); the property statement does not choose, so the
// structural predicate is accepted under either reading. Idempotence is required in any case.
static std::vector<djinterop::beatgrid_marker> trim(const Grid& g, bool end_is_anchor)
{
    double nn = static_cast<double>(g.n);
    std::vector<djinterop::beatgrid_marker> kept;
    int last_le0 = -1;
    for (size_t i = 0; i < g.m.size(); ++i)
        if (g.m[i].sample_offset <= 0)
            last_le0 = static_cast<int>(i);
    if (last_le0 >= 0)
        kept.push_back(g.m[last_le0]);
    for (auto& mk : g.m)
        if (mk.sample_offset > 0 && (end_is_anchor ? mk.sample_offset < nn : mk.sample_offset <= nn))
            kept.push_back(mk);
    for (auto& mk : g.m)
        if (end_is_anchor ? mk.sample_offset >= nn : mk.sample_offset > nn)
        {
            kept.push_back(mk);
            break;
        }
    return kept;
}

// Structural predicate of the property for one reading; returns "" if it holds.
static std::string structural(const std::vector<djinterop::beatgrid_marker>& kept,
                              const std::vector<djinterop::beatgrid_marker>& R, double nn, double& eps_out)
{
    std::ostringstream e;
    if (R.size() != kept.size())
    {
        e << "result has " << R.size() << " markers, expected " << kept.size() << ": " << show(R);
        return e.str();
    }
    if (R[0].index != -4)
    {
        e << "first marker index " << R[0].index << " != -4";
        return e.str();
    }
    double spb_first = tempo(kept[0], kept[1]);
    double spb_last = tempo(kept[kept.size() - 2], kept.back());
    double maxmag = nn;
    for (auto& mk : kept)
        maxmag = std::max(maxmag, std::fabs(mk.sample_offset));
    maxmag = std::max(maxmag, std::max(std::fabs(spb_first), std::fabs(spb_last)));
    for (auto& mk : R)
        maxmag = std::max(maxmag, std::fabs(mk.sample_offset));
    double eps = 1e-13 * maxmag;  // a few hundred ulps of the largest magnitude involved
    eps_out = eps;
    if (!(R.back().sample_offset >= nn - eps))
    {
        e << "last marker " << bits(R.back().sample_offset) << " lies before the end " << bits(nn);
        return e.str();
    }
    if (!(R.back().sample_offset < nn + spb_last + eps))
    {
        e << "last marker " << bits(R.back().sample_offset) << " is a beat or more past the end " << bits(nn)
          << " (samples per beat " << spb_last << ")";
        return e.str();
    }
    for (size_t i = 1; i + 1 < R.size(); ++i)
    {
        uint64_t a, b;
        memcpy(&a, &R[i].sample_offset, 8);
        memcpy(&b, &kept[i].sample_offset, 8);
        if (!(R[i].index == kept[i].index && a == b))
        {
            e << "interior marker " << i << " changed: " << show(R) << " vs kept " << show(kept);
            return e.str();
        }
    }
    double expect0 = kept[0].sample_offset - (4.0 + kept[0].index) * spb_first;
    // Conditioning: the tempo is a quotient of a difference of large offsets (error <= ~2 ulp(maxmag) / |index gap|)
    // and is then multiplied by the number of beats moved; the library may also recompute it from an already
    // moved marker. The tolerance is that error bound, nothing looser.
    double ulpM = maxmag * 2.3e-16;
    double gap0 = std::fabs(static_cast<double>(kept[1].index) - kept[0].index);
    double gapL = std::fabs(static_cast<double>(kept.back().index) - kept[kept.size() - 2].index);
    double tol0 = (std::fabs(4.0 + kept[0].index) * 8.0 / gap0 + 16.0) * ulpM;
    if (!(std::fabs(R[0].sample_offset - expect0) <= tol0))
    {
        e << "first marker offset " << bits(R[0].sample_offset) << " does not keep the first segment's tempo (expected "
          << bits(expect0) << ")";
        return e.str();
    }
    double k = static_cast<double>(R.back().index) - static_cast<double>(kept.back().index);
    double expectL = kept.back().sample_offset + k * spb_last;
    double tolL = ((std::fabs(k) + (kept.size() == 2 ? std::fabs(4.0 + kept[0].index) : 0.0)) * 8.0 / gapL + 16.0) * ulpM;
    eps_out = std::max(eps, std::max(tol0, tolL));
    if (!(std::fabs(R.back().sample_offset - expectL) <= tolL))
    {
        e << "last marker offset " << bits(R.back().sample_offset) << " does not keep the last segment's tempo (expected "
          << bits(expectL) << ")";
        return e.str();
    }
    return "";
}

static void prop_c20(const Case& c, Ctx& ctx)
{
    S s(c.empty() ? S::empty() : c[0]);
    Grid g = gen_grid(s, ctx);
    double nn = static_cast<double>(g.n);
    std::ostringstream d;
    d << "normalize_beatgrid(n=" << g.n << ", grid=" << show(g.m) << ")";
    ctx.describe = d.str();
    ctx.key = d.str();

    auto keptA = trim(g, false), keptB = trim(g, true);
    size_t trimmed = g.m.size() - std::max(keptA.size(), keptB.size());
    if (trimmed > 0)
        ctx.label("trimmed");
    if (keptA.size() > 2)
        ctx.label("interior-markers");
    if (!g.m.empty() && g.m.back().sample_offset <= nn && g.m.front().sample_offset > 0)
        ctx.label("grid-entirely-inside");

    // Domain restriction (see DESIGN C20): marker indices are 32-bit ints, so the normalised indices
    // must be representable; skip (counted) when the reference result would not fit in +-2^30.
    for (auto* kept : {&keptA, &keptB})
        if (kept->size() >= 2)
        {
            double spb_last = tempo((*kept)[kept->size() - 2], kept->back());
            double adj = std::ceil((nn - kept->back().sample_offset) / spb_last);
            if (!(std::fabs(adj) < 1073741824.0) || !(std::fabs(kept->back().index + adj) < 1073741824.0))
            {
                ctx.label("skipped-index-out-of-int-range");
                return;
            }
        }

    std::vector<djinterop::beatgrid_marker> R;
    bool threw_invalid = false;
    try
    {
        R = e::normalize_beatgrid(g.m, g.n);
    }
    catch (const std::invalid_argument&)
    {
        threw_invalid = true;
    }
    catch (const std::exception& ex)
    {
        VF_CHECK(false, "normalize_beatgrid threw something other than invalid_argument: " << ex.what());
    }

    bool okA = keptA.size() >= 2, okB = keptB.size() >= 2;
    if (!okA && !okB)
    {
        ctx.label("unnormalisable");
        if (g.m.empty())
            VF_CHECK(threw_invalid || R.empty(), "empty grid neither rejected nor returned unchanged");
        else
            VF_CHECK(threw_invalid, "grid with <2 usable markers was not rejected with invalid_argument; returned " << show(R));
        return;
    }
    if (okA != okB)
        ctx.label("normalisable-under-one-boundary-reading-only");
    ctx.nontrivial = trimmed > 0 || keptA.size() > 2;
    if (threw_invalid)
    {
        VF_CHECK(!(okA && okB), "normalisable grid rejected (kept " << keptA.size() << " markers)");
        return;
    }
    double eps = 0, epsB = 0;
    std::string errA = okA ? structural(keptA, R, nn, eps) : "n/a";
    std::string errB = okB ? structural(keptB, R, nn, epsB) : "n/a";
    if (!errA.empty() && errB.empty())
        eps = epsB;
    VF_CHECK(errA.empty() || errB.empty(), errA << (errB == errA || errB == "n/a" ? "" : "  |  under the other boundary reading: " + errB));
    if (R.size() > 2)
        ctx.label("result-has-interior");

    // idempotence up to rounding — only meaningful when the result is itself a strictly increasing grid
    bool increasing = true;
    for (size_t i = 1; i < R.size(); ++i)
        if (!(R[i].index > R[i - 1].index && R[i].sample_offset > R[i - 1].sample_offset))
            increasing = false;
    if (!increasing)
    {
        // can only legitimately happen when the generated start index lies below -4 (first marker jumps
        // over its successor); a duplicate of the final marker is a defect.
        bool dup_last = R.size() >= 2 && R.back().index == R[R.size() - 2].index;
        VF_CHECK(!dup_last, "result's last two markers coincide: " << show(R));
        ctx.label("result-not-increasing(start index below -4)");
        return;
    }
    std::vector<djinterop::beatgrid_marker> R2;
    try
    {
        R2 = e::normalize_beatgrid(R, g.n);
    }
    catch (const std::exception& ex)
    {
        VF_CHECK(false, "normalising a normalised grid threw: " << ex.what() << " R=" << show(R));
    }
    VF_CHECK(R2.size() == R.size(), "second normalisation changed the marker count: " << show(R2) << " vs " << show(R));
    for (size_t i = 0; i < R.size(); ++i)
    {
        bool last = i + 1 == R.size();
        bool same_idx = R2[i].index == R[i].index;
        // If rounding put the first result's last marker a hair before the end, the second pass may
        // legitimately move it by exactly one beat; that is "up to floating-point rounding" only if
        // the marker was within eps of the end.
        if (last && !same_idx && std::fabs(R[i].sample_offset - nn) <= eps && std::abs(R2[i].index - R[i].index) == 1)
        {
            ctx.label("idempotence-one-beat-rounding");
            continue;
        }
        VF_CHECK(same_idx, "not idempotent: marker " << i << " index " << R[i].index << " -> " << R2[i].index);
        VF_CHECK(close_rel(R2[i].sample_offset, R[i].sample_offset, 1e-12, 8 * eps),
                 "not idempotent: marker " << i << " offset " << bits(R[i].sample_offset) << " -> " << bits(R2[i].sample_offset));
    }
}

int main(int argc, char** argv)
{
    std::vector<vf::PropSpec> specs;
    {
        vf::PropSpec p;
        p.id = "C19";
        p.fn = prop_c19;
        p.rec_min = p.rec_max = 1;
        p.rec_len = 12;
        p.essential = {"n_mod_q=0", "n_mod_q=1", "n_mod_q=q-1", "n>2^53", "q=0", "n=0"};
        specs.push_back(p);
    }
    {
        vf::PropSpec p;
        p.id = "C20";
        p.fn = prop_c20;
        p.rec_min = p.rec_max = 1;
        p.rec_len = 160;
        p.essential = {"marker-exactly-at-end", "grid-entirely-inside", "last-marker-far-beyond", "trimmed",
                       "interior-markers", "unnormalisable", "empty-grid"};
        specs.push_back(p);
    }
    return vf::pbt_main(argc, argv, specs);
}
