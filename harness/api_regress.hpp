// Hand-written regression scenarios for API-level defects that were fixed (known_findings.json). Case = "R <scenario id> [schema index]".
// Each scenario states the property-level expectation directly, with no generator involved.
#pragma once
#include <djinterop/engine/v2/engine_library.hpp>

#include "api_blobs.hpp"

namespace api
{
inline dj::track_snapshot minimal_snapshot(const std::string& path)
{
    dj::track_snapshot s;
    s.relative_path = path;
    return s;
}
inline void for_schemas(bool v1, bool v2, const std::function<void(e::engine_schema)>& f)
{
    for (auto s : schemas())
        if ((is_v2(s) && v2) || (!is_v2(s) && v1))
            f(s);
}

inline void prop_reg(const vf::Case& c, Ctx& ctx)
{
    S s(c[0]);
    uint64_t id = s.raw();
    ctx.describe = "regression scenario " + std::to_string(id);
    ctx.nontrivial = true;
    switch (id)
    {
        case 1:  // F12: snapshot without sample count / rate but with a waveform
            for_schemas(true, true, [&](e::engine_schema sc) {
                auto db = e::create_temporary_database(sc);
                auto snap = minimal_snapshot("a/b.mp3");
                snap.waveform.resize(10);
                auto t = db.create_track(snap);
                auto back = t.snapshot();
                VF_CHECK(!back.sample_count && !back.sample_rate, sname(sc) << ": sample count/rate appeared from nowhere");
                t.update(back);
            });
            break;
        case 2:  // F13: 1.x snapshot reads the rating
            for_schemas(true, true, [&](e::engine_schema sc) {
                auto db = e::create_temporary_database(sc);
                auto snap = minimal_snapshot("a/b.mp3");
                snap.rating = 60;
                auto t = db.create_track(snap);
                VF_CHECK(t.snapshot().rating == std::optional<int>(60), sname(sc) << ": rating 60 reads back as " << rint(t.snapshot().rating));
                VF_CHECK(t.rating() == std::optional<int>(60), sname(sc) << ": rating() differs");
            });
            break;
        case 3:  // F14: 1.x bpm as given
            for_schemas(true, true, [&](e::engine_schema sc) {
                auto db = e::create_temporary_database(sc);
                auto snap = minimal_snapshot("a/b.mp3");
                snap.bpm = 120.5;
                snap.sample_rate = 44100;
                snap.sample_count = 44100 * 100;
                snap.beatgrid = {{0, 0.0}, {100, 2205000.0}};
                auto t = db.create_track(snap);
                VF_CHECK(t.snapshot().bpm == std::optional<double>(120.5), sname(sc) << ": bpm 120.5 reads back as " << rdbl(t.snapshot().bpm));
                VF_CHECK(t.bpm() == std::optional<double>(120.5), sname(sc) << ": bpm() = " << rdbl(t.bpm()));
                snap.bpm = std::nullopt;
                t.update(snap);
                VF_CHECK(!t.snapshot().bpm, sname(sc) << ": absent bpm reads back as " << rdbl(t.snapshot().bpm));
            });
            break;
        case 4:  // F15/F16: 1.x children vs descendants at depth 3, sub_crate_by_name on a root
            for_schemas(true, true, [&](e::engine_schema sc) {
                auto db = e::create_temporary_database(sc);
                auto a = db.create_root_crate("A");
                auto b = a.create_sub_crate("B");
                auto cc = b.create_sub_crate("C");
                VF_CHECK(ids_of(a.children()) == std::vector<int64_t>{b.id()}, sname(sc) << ": children(A) = " << ids_str(ids_of(a.children())));
                VF_CHECK(sorted(ids_of(a.descendants())) == sorted({b.id(), cc.id()}), sname(sc) << ": descendants(A) = " << ids_str(ids_of(a.descendants())));
                VF_CHECK(!a.sub_crate_by_name("A"), sname(sc) << ": sub_crate_by_name(A, \"A\") finds the crate itself");
                a.set_name("A2");
                VF_CHECK(cc.parent()->id() == b.id(), sname(sc) << ": parent(C) changed");
            });
            break;
        case 5:  // F17: 2.x set_parent of a non-last sibling / into an empty parent
            for_schemas(false, true, [&](e::engine_schema sc) {
                auto db = e::create_temporary_database(sc);
                auto a = db.create_root_crate("A");
                auto b = db.create_root_crate("B");
                auto d = db.create_root_crate("D");
                a.set_parent(d);  // A is the first of three roots; D has no children
                VF_CHECK(ids_of(d.children()) == std::vector<int64_t>{a.id()}, sname(sc) << ": children(D) = " << ids_str(ids_of(d.children())));
                VF_CHECK(ids_of(db.root_crates()) == (std::vector<int64_t>{b.id(), d.id()}), sname(sc) << ": roots = " << ids_str(ids_of(db.root_crates())));
            });
            break;
        case 6:  // F17/F18: re-parenting under a descendant is rejected, forest unchanged (2.x used to hang)
            for_schemas(true, true, [&](e::engine_schema sc) {
                auto db = e::create_temporary_database(sc);
                auto a = db.create_root_crate("A");
                auto b = a.create_sub_crate("B");
                auto cc = b.create_sub_crate("C");
                bool threw = false;
                try
                {
                    a.set_parent(cc);
                }
                catch (const std::exception&)
                {
                    threw = true;
                }
                VF_CHECK(threw, sname(sc) << ": set_parent(A -> its grandchild C) was accepted");
                VF_CHECK(!a.parent() && b.parent()->id() == a.id() && cc.parent()->id() == b.id(), sname(sc) << ": forest changed by a rejected move");
            });
            break;
        case 7:  // F18: 1.x set_parent moves the subtree (hierarchy + paths): checked through descendants of the new ancestors
            for_schemas(true, true, [&](e::engine_schema sc) {
                auto db = e::create_temporary_database(sc);
                auto a = db.create_root_crate("A");
                auto b = a.create_sub_crate("B");
                auto cc = b.create_sub_crate("C");
                auto x = db.create_root_crate("X");
                b.set_parent(x);
                VF_CHECK(sorted(ids_of(x.descendants())) == sorted({b.id(), cc.id()}), sname(sc) << ": descendants(X) = " << ids_str(ids_of(x.descendants())));
                VF_CHECK(a.descendants().empty(), sname(sc) << ": descendants(A) = " << ids_str(ids_of(a.descendants())));
            });
            break;
        case 8:  // F19/F20: remove_crate leaves nothing behind
            for_schemas(true, true, [&](e::engine_schema sc) {
                auto db = e::create_temporary_database(sc);
                auto a = db.create_root_crate("A");
                auto b = a.create_sub_crate("B");
                auto cc = b.create_sub_crate("C");
                int64_t bid = b.id(), cid = cc.id();
                db.remove_crate(a);
                VF_CHECK(db.root_crates().empty(), sname(sc) << ": root_crates() after removing the only root = " << ids_str(ids_of(db.root_crates())));
                for (auto& cr : db.crates())
                {
                    auto p = cr.parent();
                    VF_CHECK(!p || p->is_valid(), sname(sc) << ": surviving crate " << cr.id() << " has an invalid parent");
                }
                (void)bid;
                (void)cid;
            });
            break;
        case 9:  // F21/F22: membership after diverged ids; track removal
            for_schemas(true, true, [&](e::engine_schema sc) {
                auto db = e::create_temporary_database(sc);
                auto cr = db.create_root_crate("A");
                auto cr2 = db.create_root_crate("B");
                auto t1 = db.create_track(minimal_snapshot("a/1.mp3"));
                auto t2 = db.create_track(minimal_snapshot("a/2.mp3"));
                cr2.add_track(t2);
                cr.add_track(t2);
                cr.add_track(t1);  // entity ids now differ from track ids
                cr.remove_track(t2);
                VF_CHECK(ids_of(cr.tracks()) == std::vector<int64_t>{t1.id()}, sname(sc) << ": tracks(A) after remove_track(t2) = " << ids_str(ids_of(cr.tracks())));
                db.remove_track(t1);
                VF_CHECK(cr.tracks().empty(), sname(sc) << ": tracks(A) still lists the removed track: " << ids_str(ids_of(cr.tracks())));
                VF_CHECK(ids_of(cr2.tracks()) == std::vector<int64_t>{t2.id()}, sname(sc) << ": tracks(B) = " << ids_str(ids_of(cr2.tracks())));
            });
            break;
        case 10:  // F23/F24/F25: reload reports the schema; stored files are clean; 2.x set_relative_path
            for_schemas(true, true, [&](e::engine_schema sc) {
                ScratchDir sd;
                {
                    World w(sc, e::create_database(sd.lib(), sc));
                    auto t = w.db.create_track(minimal_snapshot("a/first.mp3"));
                    w.tracks.push_back(TrackM{t, t.id(), true});
                    t.set_relative_path("b/second.flac");
                    check_stored(w, sd.lib(), sname(sc) + " after set_relative_path");
                    auto t2 = w.db.create_track(minimal_snapshot("a/third.mp3"));
                    w.db.remove_track(t2);
                    check_stored(w, sd.lib(), sname(sc) + " after remove_track");
                }
                e::engine_schema loaded = sc == e::engine_schema::schema_1_6_0 ? e::engine_schema::schema_2_18_0 : e::engine_schema::schema_1_6_0;
                auto db = e::load_database(sd.lib(), loaded);
                VF_CHECK(loaded == sc, sname(sc) << ": load_database reports " << sname(loaded));
            });
            break;
        case 11:  // F26/F27: hostile numbers and indices
            for_schemas(true, true, [&](e::engine_schema sc) {
                auto db = e::create_temporary_database(sc);
                auto snap = minimal_snapshot("a/b.mp3");
                snap.sample_rate = 0.5;
                snap.sample_count = 1000;
                snap.bpm = 1e300;
                std::optional<dj::track> t;
                try
                {
                    t = db.create_track(snap);
                }
                catch (const std::exception&)
                {
                }
                if (!t)
                    t = db.create_track(minimal_snapshot("a/c.mp3"));
                for (double r : {0.5, 1e300, -44100.0, std::nan("")})
                    try
                    {
                        t->set_sample_rate(r);
                        t->set_sample_count(12345);
                        t->set_bpm(r);
                    }
                    catch (const std::exception&)
                    {
                    }
                for (int idx : {-1, 8, 9, INT_MAX, INT_MIN})
                {
                    try { (void)t->hot_cue_at(idx); VF_CHECK(false, sname(sc) << ": hot_cue_at(" << idx << ") returned"); } catch (const vf::Fail&) { throw; } catch (const std::exception&) {}
                    try { (void)t->loop_at(idx); VF_CHECK(false, sname(sc) << ": loop_at(" << idx << ") returned"); } catch (const vf::Fail&) { throw; } catch (const std::exception&) {}
                    try { t->set_hot_cue_at(idx, std::nullopt); VF_CHECK(false, sname(sc) << ": set_hot_cue_at(" << idx << ") returned"); } catch (const vf::Fail&) { throw; } catch (const std::exception&) {}
                    try { t->set_loop_at(idx, std::nullopt); VF_CHECK(false, sname(sc) << ": set_loop_at(" << idx << ") returned"); } catch (const vf::Fail&) { throw; } catch (const std::exception&) {}
                }
                (void)e::calculate_overview_waveform_extents(~0ull, std::nan(""));
                (void)e::calculate_high_resolution_waveform_extents(~0ull, -1.0);
                (void)e::calculate_high_resolution_waveform_extents(1000, 1e300);
                try
                {
                    (void)e::normalize_beatgrid({{INT_MIN, 0.0}, {INT_MAX, 10.0}}, 1000000);
                }
                catch (const std::exception&)
                {
                }
            });
            break;
        case 12:  // F30: multi-statement setters under a fault at each statement
            for_schemas(true, true, [&](e::engine_schema sc) {
                auto db = e::create_temporary_database(sc);
                auto snap = minimal_snapshot("a/b.mp3");
                snap.sample_rate = 44100;
                snap.sample_count = 441000;
                snap.key = dj::musical_key::a_minor;
                snap.bpm = 100.0;
                auto t = db.create_track(snap);
                std::vector<std::pair<std::string, std::function<void()>>> calls = {
                    {"set_key", [&] { t.set_key(dj::musical_key::d_minor); }},
                    {"set_sample_count", [&] { t.set_sample_count(500000ull); }},
                    {"set_sample_rate", [&] { t.set_sample_rate(48000.0); }},
                    {"set_bpm", [&] { t.set_bpm(133.25); }},
                    {"set_relative_path", [&] { t.set_relative_path("x/y.flac"); }},
                    {"set_last_played_at", [&] { t.set_last_played_at(std::chrono::system_clock::time_point{std::chrono::seconds{1600000000}}); }},
                };
                for (auto& kv : calls)
                    for (uint64_t k = 1; k < 10; ++k)
                    {
                        std::string before = observe(db, is_v2(sc));
                        vfshim::arm(k);
                        bool threw = false;
                        try
                        {
                            kv.second();
                        }
                        catch (const std::exception&)
                        {
                            threw = true;
                        }
                        bool fired = vfshim::state().fired;
                        vfshim::disarm();
                        if (!fired)
                            break;  // the call has fewer than k statements (and has now succeeded)
                        VF_CHECK(threw, sname(sc) << ": " << kv.first << " did not report the failure of its statement " << k);
                        std::string after = observe(db, is_v2(sc));
                        VF_CHECK(before == after, sname(sc) << ": " << kv.first << " with statement " << k << " failing left a partial update: " << first_diff_line(before, after));
                    }
            });
            break;
        case 13:  // F31/F32: table-level remove(): by track id as documented; unknown rows are reported
            for (auto sc : e::supported_v2_schemas)
            {
                namespace v2 = djinterop::engine::v2;
                auto lib = v2::engine_library::create_temporary(sc);
                auto pt = lib.playlist();
                auto et = lib.playlist_entity();
                std::string uuid = lib.information().get().uuid;
                int64_t l1 = pt.add(v2::playlist_row{0, "one", 0, true, 0, std::chrono::system_clock::time_point{}, true});
                int64_t l2 = pt.add(v2::playlist_row{0, "two", 0, true, 0, std::chrono::system_clock::time_point{}, true});
                et.add_back(v2::playlist_entity_row{0, l2, 7, uuid, 0, 0});
                et.add_back(v2::playlist_entity_row{0, l1, 7, uuid, 0, 0});
                et.add_back(v2::playlist_entity_row{0, l1, 5, uuid, 0, 0});  // entity id 3 holds track 5
                et.remove(l1, 5);
                VF_CHECK(et.track_ids(l1) == std::vector<int64_t>{7}, sname(sc) << ": remove(list, track 5) left " << ids_str(et.track_ids(l1)));
                bool threw = false;
                try { et.remove(l1, 12345); } catch (const std::exception&) { threw = true; }
                VF_CHECK(threw, sname(sc) << ": playlist_entity_table::remove of an unknown track silently succeeded");
                threw = false;
                try { pt.remove(999); } catch (const std::exception&) { threw = true; }
                VF_CHECK(threw, sname(sc) << ": playlist_table::remove of an unknown id silently succeeded");
            }
            break;
        case 14:  // F33 (open): 1.x hands the id of the removed newest crate / track out again
            for_schemas(true, true, [&](e::engine_schema sc) {
                auto db = e::create_temporary_database(sc);
                auto a = db.create_root_crate("A");
                auto b = db.create_root_crate("B");
                int64_t removed = b.id();
                db.remove_crate(b);
                auto n = db.create_root_crate("N");
                VF_CHECK(n.id() != removed, sname(sc) << ": the id " << removed << " of a removed crate was issued again (a stale handle to it is valid again)");
                auto t1 = db.create_track(minimal_snapshot("a/1.mp3"));
                auto t2 = db.create_track(minimal_snapshot("a/2.mp3"));
                int64_t removed_t = t2.id();
                db.remove_track(t2);
                auto t3 = db.create_track(minimal_snapshot("a/3.mp3"));
                VF_CHECK(t3.id() != removed_t, sname(sc) << ": the id " << removed_t << " of a removed track was issued again");
            });
            break;
        case 15:  // F34: 2.x set_loops / set_waveform keep the trailing data of the blob they rewrite
            for (auto sc : e::supported_v2_schemas)
            {
                auto db = e::create_temporary_database(sc);
                auto snap = minimal_snapshot("a/b.mp3");
                snap.sample_rate = 44100;
                snap.sample_count = 441000;
                auto t = db.create_track(snap);
                sqlite3* conn = vfshim::state().last_db;
                VF_CHECK(conn != nullptr, "no connection");
                ref::Toks lp{ref::sc(0), ref::st("TAILDATA!")};
                ref::Toks ov{ref::sc(0), ref::sc(0), ref::sc(0), ref::sc(0), ref::sc(0), ref::sc(0), ref::st("OVTAIL")};
                auto b1 = ref::encode(ref::V2_LOOPS, lp), b2 = ref::encode(ref::V2_OVERVIEW, ov);
                sqlite3_stmt* stmt = nullptr;
                VF_CHECK(sqlite3_prepare_v2(conn, "UPDATE Track SET loops = ?, overviewWaveFormData = ? WHERE id = ?", -1, &stmt, nullptr) == SQLITE_OK, "prepare");
                sqlite3_bind_blob(stmt, 1, b1.data(), static_cast<int>(b1.size()), SQLITE_TRANSIENT);
                sqlite3_bind_blob(stmt, 2, b2.data(), static_cast<int>(b2.size()), SQLITE_TRANSIENT);
                sqlite3_bind_int64(stmt, 3, t.id());
                sqlite3_step(stmt);
                sqlite3_finalize(stmt);
                t.set_loops({dj::loop{"l", 1.0, 2.0, e::standard_pad_colors::pad_1}});
                t.set_waveform(std::vector<dj::waveform_entry>(100));
                auto blobs = raw_blobs(conn, true, t.id());
                auto got_lp = decode_blob(ref::V2_LOOPS, blobs[4], sname(sc) + " loops");
                auto got_ov = decode_blob(ref::V2_OVERVIEW, blobs[1], sname(sc) + " overview");
                VF_CHECK(got_lp.back().s == "TAILDATA!", sname(sc) << ": set_loops dropped the trailing data of the loops blob");
                VF_CHECK(got_ov.back().s == "OVTAIL", sname(sc) << ": set_waveform dropped the trailing data of the overview waveform blob");
            }
            break;
        case 16:  // F35: playlist_entity_table::get() with the same track id from two databases in one playlist
            for (auto sc : e::supported_v2_schemas)
            {
                namespace v2 = djinterop::engine::v2;
                auto lib = v2::engine_library::create_temporary(sc);
                auto pt = lib.playlist();
                auto et = lib.playlist_entity();
                std::string uuid = lib.information().get().uuid;
                int64_t list = pt.add(v2::playlist_row{0, "L", 0, true, 0, std::chrono::system_clock::time_point{}, true});
                int64_t e1 = et.add_back(v2::playlist_entity_row{0, list, 7, uuid, 0, 0});
                int64_t e2 = et.add_back(v2::playlist_entity_row{0, list, 7, "another-database", 0, 0});
                VF_CHECK(e1 != e2, sname(sc) << ": the entity of another database was not added");
                auto g1 = et.get(list, 7);  // used to abort (assert) in builds with assertions, arbitrary row otherwise
                auto g2 = et.get(list, 7);
                VF_CHECK(g1 && g2 && g1->id == g2->id && g1->database_uuid == g2->database_uuid, sname(sc) << ": get(list, track) is not repeatable");
                VF_CHECK(g1->id == e1 || g1->id == e2, sname(sc) << ": get(list, track) returns an entity that was never added");
                VF_CHECK(et.get_for_list(list).size() == 2 && et.track_ids(list).size() == 2, sname(sc) << ": listing loses an entity");
            }
            break;
        case 17:  // F36: 2.x removing a crate entry whose track id is not positive (the schema's delete trigger skips those)
            for (auto sc : e::supported_v2_schemas)
                for (int pos = 0; pos < 3; ++pos)
                    for (int64_t bad : {int64_t{-1}, int64_t{0}, INT64_MIN})
                    {
                        auto db = e::create_temporary_database(sc);
                        auto t1 = db.create_track(minimal_snapshot("a/1.mp3"));
                        auto t2 = db.create_track(minimal_snapshot("a/2.mp3"));
                        auto c = db.create_root_crate("A");
                        if (pos == 0) c.add_track(bad);
                        c.add_track(t1);
                        if (pos == 1) c.add_track(bad);
                        c.add_track(t2);
                        if (pos == 2) c.add_track(bad);
                        VF_CHECK(c.tracks().size() == 3, sname(sc) << ": the crate does not list the three entries added");
                        for (auto& t : c.tracks())
                            if (t.id() == bad)
                                c.remove_track(t);
                        auto left = c.tracks();  // used to abort: the predecessor of the removed entry still pointed at it
                        VF_CHECK(left.size() == 2 && left[0].id() == t1.id() && left[1].id() == t2.id(),
                                 sname(sc) << ": after removing the entry with track id " << bad << " at position " << pos << " the crate lists " << left.size() << " entries");
                        c.add_track(bad);
                        VF_CHECK(c.tracks().size() == 3, sname(sc) << ": the entry cannot be added again");
                        db.verify();
                    }
            break;
        default: break;
    }
}
}  // namespace api
