// C18: rows written through the schema-2.x table API read back as written (track_table, playlist_table, playlist_entity_table).
#include "common/bigalloc.hpp"
#include "common/codec_values.hpp"
#include "common/raw_tables.hpp"
#include "common/sqlite_shim.hpp"

#include <djinterop/engine/v2/engine_library.hpp>
#include <djinterop/exceptions.hpp>

#include <algorithm>
#include <filesystem>
#include <functional>
#include <fstream>

using namespace cv;
namespace e = djinterop::engine;
using tt = v2::track_table;
using row_t = v2::track_row;
using tp_t = std::chrono::system_clock::time_point;

// ---------------------------------------------------------------------------------------------- renderings per column type
static std::string r(const std::string& s) { return hx(s); }
static std::string r(int64_t v) { return std::to_string(v); }
static std::string r(int32_t v) { return std::to_string(v); }
static std::string r(bool v) { return v ? "T" : "F"; }
static std::string r(double v) { return dbl(v); }
static std::string r(const tp_t& t) { return std::to_string(std::chrono::duration_cast<std::chrono::milliseconds>(t.time_since_epoch()).count()) + "ms"; }
static std::string r(const v2::track_data_blob& b) { return canon(b); }
static std::string r(const v2::overview_waveform_data_blob& b) { return canon(b); }
static std::string r(const v2::beat_data_blob& b) { return canon(b); }
static std::string r(const v2::quick_cues_blob& b) { return canon(b); }
static std::string r(const v2::loops_blob& b) { return canon(b); }
template <class T>
static std::string r(const std::optional<T>& o)
{
    return o ? r(*o) : std::string("-");
}

struct Col
{
    const char* name;
    std::function<std::string(tt&, int64_t)> get;                     // per-column getter, rendered
    std::function<void(tt&, int64_t, const row_t&)> set;              // per-column setter taking the value from a row
    std::function<std::string(const row_t&)> of;                      // the field of a row, rendered
    std::function<void(row_t&, const row_t&)> copy;                   // model update
    e::engine_schema since = e::engine_schema::schema_2_18_0;         // first schema that has the column
    bool db_maintained = false;                                       // exempt from equality (last edit time, origin fix-up)
};
#define COL(NAME) \
    Col { #NAME, [](tt& t, int64_t id) { return r(t.get_##NAME(id)); }, [](tt& t, int64_t id, const row_t& x) { t.set_##NAME(id, x.NAME); }, \
          [](const row_t& x) { return r(x.NAME); }, [](row_t& d, const row_t& s) { d.NAME = s.NAME; } }
static std::vector<Col>& columns()
{
    static std::vector<Col> c = [] {
        std::vector<Col> v = {COL(play_order), COL(length), COL(bpm), COL(year), COL(path), COL(filename), COL(bitrate), COL(bpm_analyzed),
                              COL(album_art_id), COL(file_bytes), COL(title), COL(artist), COL(album), COL(genre), COL(comment), COL(label),
                              COL(composer), COL(remixer), COL(key), COL(rating), COL(album_art), COL(time_last_played), COL(is_played),
                              COL(file_type), COL(is_analyzed), COL(date_created), COL(date_added), COL(is_available),
                              COL(is_metadata_of_packed_track_changed), COL(is_performance_data_of_packed_track_changed), COL(played_indicator),
                              COL(is_metadata_imported), COL(pdb_import_key), COL(streaming_source), COL(uri), COL(is_beat_grid_locked),
                              COL(origin_database_uuid), COL(origin_track_id), COL(track_data), COL(overview_waveform_data), COL(beat_data),
                              COL(quick_cues), COL(loops), COL(third_party_source_id), COL(streaming_flags), COL(explicit_lyrics),
                              COL(active_on_load_loops), COL(last_edit_time)};
        for (auto& x : v)
        {
            std::string n = x.name;
            if (n == "active_on_load_loops")
                x.since = e::engine_schema::schema_2_20_1;
            if (n == "last_edit_time")
            {
                x.since = e::engine_schema::schema_2_20_3;
                x.db_maintained = true;
            }
        }
        return v;
    }();
    return c;
}
static bool has_col(e::engine_schema s, const Col& c) { return static_cast<int>(s) >= static_cast<int>(c.since); }

// ---------------------------------------------------------------------------------------------- generators
struct Distinct
{
    // distinct values for same-typed neighbouring columns, so that a transposed bind is visible
    int64_t n = 1000;
    int64_t next() { return n += 7; }
};
static std::optional<int64_t> g_oi64(S& s, Distinct& d)
{
    switch (s.below(6))
    {
        case 0: return std::nullopt;
        case 1: return gen_i64(s);
        default: return d.next();
    }
}
static int64_t g_i64(S& s, Distinct& d) { return s.below(5) == 0 ? gen_i64(s) : d.next(); }
static std::string g_str(S& s, Distinct& d, bool may_be_empty = true)
{
    static const std::vector<std::string> pool = {"plain", "it's \"quoted\"; --", "\xc3\x9cml\xc3\xa4ut \xe2\x82\xac", "100% [x] \\ `y`", "tab\there"};
    switch (s.below(6))
    {
        case 0:
            if (may_be_empty)
                return "";
            [[fallthrough]];
        case 1: return pool[s.below(pool.size())] + std::to_string(d.next());
        case 2: return std::string(300, 'x') + std::to_string(d.next());
        default: return "v" + std::to_string(d.next());
    }
}
static std::optional<std::string> g_ostr(S& s, Distinct& d)
{
    if (s.below(5) == 0)
        return std::nullopt;
    return g_str(s, d);
}
static tp_t g_time(S& s)
{
    using namespace std::chrono;
    static const std::vector<int64_t> e_ = {0, 1, -1, 1600000000, -86400LL * 365 * 40, 9000000000LL, -9000000000LL, 253402300799LL / 100};
    int64_t secs = s.coin() ? e_[s.below(e_.size())] : static_cast<int64_t>(s.below(4000000000ull));
    return tp_t{seconds{secs}};
}
static double g_real(S& s)
{
    // doubles a SQLite REAL column can hold and return unchanged: no NaN (SQLite stores NaN as NULL)
    switch (s.below(6))
    {
        case 0: return 0.0;
        case 1: return 128.0;
        case 2: return 99.99 + static_cast<double>(s.below(100));
        case 3: return -17.25;
        case 4: return 1e300;
        default: return static_cast<double>(s.below(1ull << 40)) / 3.0;
    }
}
static row_t gen_row(S& s, Ctx& ctx, Distinct& d, int serial)
{
    GenOpts o;
    o.whole_domain = false;
    row_t x{};
    x.id = v2::TRACK_ROW_ID_NONE;
    x.play_order = g_oi64(s, d);
    x.length = g_i64(s, d);
    x.bpm = g_oi64(s, d);
    x.year = g_oi64(s, d);
    x.path = "dir/" + g_str(s, d, false) + "-" + std::to_string(serial) + ".mp3";
    x.filename = g_str(s, d);
    x.bitrate = g_oi64(s, d);
    if (s.below(5) != 0)
        x.bpm_analyzed = g_real(s);
    x.album_art_id = s.coin() ? 1 : g_i64(s, d);
    x.file_bytes = g_oi64(s, d);
    x.title = g_ostr(s, d);
    x.artist = g_ostr(s, d);
    x.album = g_ostr(s, d);
    x.genre = g_ostr(s, d);
    x.comment = g_ostr(s, d);
    x.label = g_ostr(s, d);
    x.composer = g_ostr(s, d);
    x.remixer = g_ostr(s, d);
    if (s.below(5) != 0)
        x.key = static_cast<int32_t>(s.coin() ? s.below(24) : static_cast<uint64_t>(gen_i32(s)));
    x.rating = g_i64(s, d);
    x.album_art = g_ostr(s, d);
    if (s.below(4) != 0)
        x.time_last_played = g_time(s);
    uint64_t bits = s.raw();
    x.is_played = bits & 1;
    x.file_type = g_str(s, d);
    x.is_analyzed = bits & 2;
    x.date_created = g_time(s);
    x.date_added = g_time(s);
    x.is_available = bits & 4;
    x.is_metadata_of_packed_track_changed = bits & 8;
    x.is_performance_data_of_packed_track_changed = bits & 16;
    x.played_indicator = g_oi64(s, d);
    x.is_metadata_imported = bits & 32;
    x.pdb_import_key = g_i64(s, d);
    x.streaming_source = g_ostr(s, d);
    x.uri = g_ostr(s, d);
    x.is_beat_grid_locked = bits & 64;
    if (s.below(3) == 0)
    {
        // written empty / zero: the database fixes both up to (library uuid, id)
        x.origin_database_uuid = "";
        x.origin_track_id = 0;
        ctx.label("origin:fix-up");
    }
    else
    {
        x.origin_database_uuid = "uuid-" + std::to_string(d.next());
        x.origin_track_id = d.next();
    }
    x.track_data = gen_v2_track(s, ctx, o);
    x.track_data.extra_data.clear();
    x.overview_waveform_data = gen_v2_overview(s, ctx, o);
    x.beat_data = gen_v2_beat(s, ctx, o);
    x.quick_cues = gen_v2_cues(s, ctx, o);
    for (auto& q : x.quick_cues.quick_cues)
        if (q.label.size() > 255)
            q.label.resize(255);
    x.loops = gen_v2_loops(s, ctx, o);
    for (auto& q : x.loops.loops)
        if (q.label.size() > 255)
            q.label.resize(255);
    x.third_party_source_id = g_oi64(s, d);
    x.streaming_flags = g_i64(s, d);
    x.explicit_lyrics = bits & 128;
    x.active_on_load_loops = g_oi64(s, d);
    x.last_edit_time = g_time(s);
    return x;
}

static size_t populated(const row_t& x)
{
    size_t n = 0;
    for (auto& c : columns())
    {
        std::string v = c.of(x);
        if (v != "-" && v != "x" && v != "0" && v != "F")
            ++n;
    }
    return n;
}

struct Live
{
    int64_t id;
    row_t row;  // model: the row as written (with the origin fix-up applied)
};

static void check_row(e::engine_schema schema, tt& t, const Live& l, const std::string& where)
{
    auto got = t.get(l.id);
    VF_CHECK(got.has_value(), where << ": get(" << l.id << ") finds nothing");
    VF_CHECK(got->id == l.id, where << ": get(" << l.id << ").id = " << got->id);
    for (auto& c : columns())
    {
        if (!has_col(schema, c) || c.db_maintained)
            continue;
        std::string want = c.of(l.row), have = c.of(*got);
        VF_CHECK(want == have, where << ": column " << c.name << " of row " << l.id << " reads back as " << have.substr(0, 300) << ", written " << want.substr(0, 300));
        std::string via;
        try
        {
            via = c.get(t, l.id);
        }
        catch (const std::exception& ex)
        {
            VF_CHECK(false, where << ": get_" << c.name << "(" << l.id << ") throws: " << ex.what());
        }
        VF_CHECK(via == want, where << ": get_" << c.name << "(" << l.id << ") = " << via.substr(0, 300) << " but get().…= " << want.substr(0, 300));
    }
}

static void prop_c18(const vf::Case& c, Ctx& ctx)
{
    S h(c[0]);
    auto schema = e::supported_v2_schemas[h.below(e::supported_v2_schemas.size())];
    ctx.label("schema=" + e::to_string(schema));
    int range = static_cast<int>(schema) < static_cast<int>(e::engine_schema::schema_2_20_1)   ? 0
                : static_cast<int>(schema) < static_cast<int>(e::engine_schema::schema_2_20_3) ? 1
                                                                                                 : 2;
    ctx.label("column-range=" + std::to_string(range));
    auto lib = v2::engine_library::create_temporary(schema);
    tt t = lib.track();
    std::string uuid = lib.information().get().uuid;
    std::vector<Live> live;
    std::set<int64_t> removed;
    Distinct d;
    std::string hist = "schema " + e::to_string(schema);
    int serial = 0;
    bool rich = false;
    for (size_t rec = 1; rec < c.size(); ++rec)
    {
        S s(c[rec]);
        int op = static_cast<int>(s.below(12));
        if (live.empty())
            op = 0;
        if (op == 11)
            op = 10;
        if (op == 10 && live.size() < 2)
            op = 1;
        std::string where;
        switch (op)
        {
            case 0:
            case 1:
            {
                row_t x = gen_row(s, ctx, d, ++serial);
                hist += " | add";
                int64_t id;
                try
                {
                    id = t.add(x);
                }
                catch (const std::exception& ex)
                {
                    VF_CHECK(false, hist << ": add() of a valid row throws: " << ex.what());
                }
                hist += "=" + std::to_string(id);
                for (auto& l : live)
                    VF_CHECK(l.id != id, hist << ": add() returned the id of an existing row");
                if (x.origin_database_uuid.empty() && x.origin_track_id == 0)
                {
                    x.origin_database_uuid = uuid;
                    x.origin_track_id = id;
                }
                if (populated(x) >= 40)
                {
                    rich = true;
                    ctx.label("row>=40-populated");
                }
                live.push_back(Live{id, x});
                ctx.label("add");
                break;
            }
            case 2:
            {
                Live& l = live[s.below(live.size())];
                row_t x = gen_row(s, ctx, d, ++serial);
                x.id = l.id;
                hist += " | update(" + std::to_string(l.id) + ")";
                try
                {
                    t.update(x);
                }
                catch (const std::exception& ex)
                {
                    VF_CHECK(false, hist << ": update() of a valid row throws: " << ex.what());
                }
                if (x.origin_database_uuid.empty() && x.origin_track_id == 0)
                {
                    x.origin_database_uuid = uuid;
                    x.origin_track_id = l.id;
                }
                l.row = x;
                ctx.label("update");
                break;
            }
            case 3:
            case 4:
            case 5:
            case 6:
            {  // per-column setter
                Live& l = live[s.below(live.size())];
                Col& col = columns()[s.below(columns().size())];
                row_t x = gen_row(s, ctx, d, ++serial);
                hist += " | set_" + std::string(col.name) + "(" + std::to_string(l.id) + ")";
                ctx.label(std::string("set_") + col.name);
                if (!has_col(schema, col))
                {
                    bool unsupported = false;
                    try
                    {
                        col.set(t, l.id, x);
                    }
                    catch (const djinterop::unsupported_operation&)
                    {
                        unsupported = true;
                    }
                    VF_CHECK(unsupported, hist << ": setter of a column this schema does not have did not throw unsupported_operation");
                    unsupported = false;
                    try
                    {
                        (void)col.get(t, l.id);
                    }
                    catch (const djinterop::unsupported_operation&)
                    {
                        unsupported = true;
                    }
                    VF_CHECK(unsupported, hist << ": getter of a column this schema does not have did not throw unsupported_operation");
                    ctx.label("unsupported-column");
                    break;
                }
                std::string n = col.name;
                if (n == "origin_database_uuid" || n == "origin_track_id")
                {
                    // keep the pair unique and non-empty (schema constraint / fix-up trigger), both are set by two calls otherwise
                    x.origin_database_uuid = "set-uuid-" + std::to_string(d.next());
                    x.origin_track_id = d.next();
                }
                try
                {
                    col.set(t, l.id, x);
                }
                catch (const std::exception& ex)
                {
                    VF_CHECK(false, hist << ": set_" << col.name << " throws: " << ex.what());
                }
                col.copy(l.row, x);
                break;
            }
            case 7:
            {
                size_t i = s.below(live.size());
                int64_t id = live[i].id;
                hist += " | remove(" + std::to_string(id) + ")";
                try
                {
                    t.remove(id);
                }
                catch (const std::exception& ex)
                {
                    VF_CHECK(false, hist << ": remove() of an existing row throws: " << ex.what());
                }
                live.erase(live.begin() + i);
                removed.insert(id);
                VF_CHECK(!t.get(id), hist << ": get() still finds the removed row");
                VF_CHECK(!t.exists(id), hist << ": exists() is true for the removed row");
                ctx.label("remove");
                break;
            }
            case 10:
            {
                // A write to (or next to) row A whose path / origin pair is the one ANOTHER live row B holds.  The table is keyed UNIQUE on both,
                // so the database refuses the statement: whether the call throws (nothing changes) or goes through (A reads back as written),
                // "a setter changes that column only" and "a row reads back as written" mean that B is still there, unchanged.
                size_t i = s.below(live.size());
                size_t j = (i + 1 + s.below(live.size() - 1)) % live.size();
                Live& a = live[i];
                const Live b = live[j];
                bool by_origin = s.below(3) == 0;
                int how = static_cast<int>(s.below(3));   // 0 add(), 1 update(A), 2 per-column setter on A
                row_t x = how == 0 ? gen_row(s, ctx, d, ++serial) : a.row;
                x.id = how == 0 ? v2::TRACK_ROW_ID_NONE : a.id;
                if (by_origin)
                {
                    x.origin_database_uuid = b.row.origin_database_uuid;
                    x.origin_track_id = b.row.origin_track_id;
                }
                else
                    x.path = b.row.path;
                hist += std::string(" | colliding ") + (how == 0 ? "add" : how == 1 ? "update" : "set") + "(" + (by_origin ? "origin pair" : "path") + " of " +
                        std::to_string(b.id) + (how == 0 ? "" : " onto " + std::to_string(a.id)) + ")";
                bool threw = false;
                int64_t new_id = 0;
                try
                {
                    if (how == 0)
                        new_id = t.add(x);
                    else if (how == 1)
                        t.update(x);
                    else if (by_origin)
                    {
                        // two calls; the first one alone may already collide or not, the pair certainly does
                        t.set_origin_database_uuid(a.id, x.origin_database_uuid);
                        a.row.origin_database_uuid = x.origin_database_uuid;
                        t.set_origin_track_id(a.id, x.origin_track_id);
                    }
                    else
                        t.set_path(a.id, x.path);
                }
                catch (const std::exception&)
                {
                    threw = true;
                }
                hist += threw ? "=rejected" : "=accepted";
                ctx.label(threw ? "collision:rejected" : "collision:accepted");
                ctx.label(std::string("collision:") + (how == 0 ? "add" : how == 1 ? "update" : "set") + (by_origin ? ":origin" : ":path"));
                if (!threw)
                {
                    if (how == 0 && x.origin_database_uuid.empty() && x.origin_track_id == 0)
                    {
                        x.origin_database_uuid = uuid;
                        x.origin_track_id = new_id;
                    }
                    if (how == 0)
                        live.push_back(Live{new_id, x});
                    else
                        live[i].row = x;
                }
                // B first, by name, for a clear message; every row and the id list are compared below as after every step
                VF_CHECK(t.exists(b.id) && t.get(b.id).has_value(), hist << ": row " << b.id << ", which the call did not name, is gone");
                break;
            }
            default:
            {  // accessors and remove() naming a nonexistent row must report an error
                int64_t id = removed.empty() || s.coin() ? 100000 + static_cast<int64_t>(s.below(1000)) : *removed.begin();
                Col& col = columns()[s.below(columns().size())];
                if (!has_col(schema, col))
                    break;
                hist += " | nonexistent(" + std::to_string(id) + "," + col.name + ")";
                row_t x = gen_row(s, ctx, d, ++serial);
                bool threw = false;
                try { (void)col.get(t, id); } catch (const std::exception&) { threw = true; }
                VF_CHECK(threw, hist << ": get_" << col.name << " on a nonexistent row returned a value");
                threw = false;
                try { col.set(t, id, x); } catch (const std::exception&) { threw = true; }
                VF_CHECK(threw, hist << ": set_" << col.name << " on a nonexistent row silently succeeded");
                threw = false;
                try { t.remove(id); } catch (const std::exception&) { threw = true; }
                VF_CHECK(threw, hist << ": remove() of a nonexistent row silently succeeded");
                threw = false;
                x.id = id;
                // (the property names column accessors and remove(); update() of a nonexistent row is only required not to create one)
                try { t.update(x); } catch (const std::exception&) { threw = true; }
                if (!threw)
                    ctx.label("update(nonexistent)-silent");
                VF_CHECK(!t.get(id) && !t.exists(id), hist << ": a nonexistent row came into being");
                ctx.label("nonexistent-row");
                break;
            }
        }
        for (auto& l : live)
            check_row(schema, t, l, hist);
        auto ids = t.all_ids();
        std::sort(ids.begin(), ids.end());
        std::vector<int64_t> want;
        for (auto& l : live)
            want.push_back(l.id);
        std::sort(want.begin(), want.end());
        VF_CHECK(ids == want, hist << ": all_ids() has " << ids.size() << " ids, the model " << want.size());
    }
    ctx.describe = hist;
    ctx.key = hist + std::to_string(d.n);
    ctx.nontrivial = rich;
}

// ---------------------------------------------------------------------------------------------- playlists and entities
static std::string r(const v2::playlist_row& p)
{
    return "{" + hx(p.title) + "," + std::to_string(p.parent_list_id) + "," + r(p.is_persisted) + ",next=" + std::to_string(p.next_list_id) + "," + r(p.last_edit_time) + "," + r(p.is_explicitly_exported) + "}";
}
static void prop_c18_lists(const vf::Case& c, Ctx& ctx)
{
    S h(c[0]);
    auto schema = e::supported_v2_schemas[h.below(e::supported_v2_schemas.size())];
    ctx.label("schema=" + e::to_string(schema));
    auto lib = v2::engine_library::create_temporary(schema);
    auto pt = lib.playlist();
    auto et = lib.playlist_entity();
    std::string uuid = lib.information().get().uuid;
    std::map<int64_t, v2::playlist_row> lists;                 // id -> row as written
    struct Ent
    {
        int64_t track;
        std::string uuid;
        int64_t mref;
        int64_t eid;
    };
    std::map<int64_t, std::vector<Ent>> entries;               // list id -> entities in insertion order
    std::map<int64_t, std::vector<int64_t>> order;             // parent id (0 = root) -> children in sibling order
    auto unlink = [&](int64_t id) {
        auto& v = order[lists[id].parent_list_id];
        v.erase(std::remove(v.begin(), v.end(), id), v.end());
    };
    auto link = [&](int64_t id, int64_t parent, int64_t next) {
        auto& v = order[parent];
        auto it = next == 0 ? v.end() : std::find(v.begin(), v.end(), next);
        v.insert(it, id);
    };
    std::function<bool(int64_t, int64_t)> is_under = [&](int64_t id, int64_t anc) {   // id == anc or id below anc
        for (int64_t x = id; x != 0; x = lists[x].parent_list_id)
            if (x == anc)
                return true;
        return false;
    };
    std::string hist = "schema " + e::to_string(schema);
    int serial = 0;
    bool nt = false;
    // the two remaining tables of the 2.x table API: ChangeLog (append-only, absent from 2.20.3 on) and the single Information row
    const bool has_log = schema < e::engine_schema::schema_2_20_3;
    std::vector<std::pair<int64_t, int64_t>> log;              // (id, track id) in insertion order
    v2::information_row info = lib.information().get();
    {
        bool threw = false;
        try { auto t = lib.change_log(); (void)t; } catch (const dj::unsupported_operation&) { threw = true; }
        VF_CHECK(threw == !has_log, hist << ": change_log() " << (threw ? "is refused on a schema that has the table" : "is offered on a schema without the table"));
    }
    for (size_t rec = 1; rec < c.size(); ++rec)
    {
        S s(c[rec]);
        static const int weighted[] = {0, 1, 2, 3, 3, 3, 3, 4, 4, 4, 5, 5, 5, 6, 7, 8, 9, 10, 10, 11, 12};
        int op = weighted[s.below(sizeof weighted / sizeof *weighted)];
        if (lists.empty() && op < 11)
            op = 0;
        auto pick = [&]() { auto it = lists.begin(); std::advance(it, s.below(lists.size())); return it->first; };
        auto pick_full = [&]() {   // entity operations: half of the time the list with the most entries, so that lists grow beyond two entries
            int64_t id = pick();
            if (s.coin())
                for (auto& kv : entries)
                    if (lists.count(kv.first) && kv.second.size() > entries[id].size())
                        id = kv.first;
            return id;
        };
        switch (op)
        {
            case 0:
            case 1:
            {
                v2::playlist_row p{v2::PLAYLIST_ROW_ID_NONE, "L" + std::to_string(++serial), lists.empty() || s.coin() ? 0 : pick(), s.coin(), 0, g_time(s), s.coin()};
                // a persisted child persists its ancestors (database trigger): keep the model simple by writing persisted rows under persisted parents only
                if (p.parent_list_id != 0 && p.is_persisted && !lists[p.parent_list_id].is_persisted)
                    p.is_persisted = false;
                {   // position: at the end (next = none) or before one of the future siblings
                    auto& sib = order[p.parent_list_id];
                    size_t at = s.below(sib.size() + 2);
                    p.next_list_id = at < sib.size() ? sib[at] : 0;
                    if (p.next_list_id != 0)
                        ctx.label("playlist:add-before-sibling");
                }
                int64_t id = pt.add(p);
                hist += " | add_list=" + std::to_string(id) + "(parent " + std::to_string(p.parent_list_id) + ", before " + std::to_string(p.next_list_id) + ")";
                VF_CHECK(!lists.count(id), hist << ": add() returned an existing id");
                lists[id] = p;
                link(id, p.parent_list_id, p.next_list_id);
                ctx.label("playlist:add");
                break;
            }
            case 2:
            {
                int64_t id = pick();
                auto got = pt.get(id);
                VF_CHECK(got.has_value(), hist << ": get(" << id << ") finds nothing");
                v2::playlist_row p = *got;
                p.title = "R" + std::to_string(++serial);
                p.last_edit_time = g_time(s);
                p.is_explicitly_exported = s.coin();
                pt.update(p);
                hist += " | update_list(" + std::to_string(id) + ")";
                lists[id].title = p.title;
                lists[id].last_edit_time = p.last_edit_time;
                lists[id].is_explicitly_exported = p.is_explicitly_exported;
                ctx.label("playlist:update");
                break;
            }
            case 11:
            {
                if (!has_log)
                    break;
                auto cl = lib.change_log();
                static const int edge[] = {0, 1, -1, 2147483647, -2147483647 - 1};
                int track = s.below(3) == 0 ? edge[s.below(5)] : static_cast<int>(s.below(1000));
                int64_t id = cl.add(track);
                hist += " | log_add(" + std::to_string(track) + ")=" + std::to_string(id);
                VF_CHECK(log.empty() || id > log.back().first, hist << ": change_log add() returned an id not above the previous one");
                log.emplace_back(id, track);
                ctx.label("changelog:add");
                break;
            }
            case 12:
            {
                static const int64_t edge[] = {0, 1, -1, INT64_MAX, INT64_MIN};
                int64_t v = s.coin() ? edge[s.below(5)] : static_cast<int64_t>(s.raw());
                hist += " | played_indicator(" + std::to_string(v) + ")";
                lib.information().update_current_played_indicator(v);
                info.current_played_indicator = v;
                ctx.label("information:played-indicator");
                break;
            }
            case 9:
            case 10:
            {   // update() that moves the row: another position among its siblings and/or another parent, other fields changing or not
                int64_t id = pick();
                auto got = pt.get(id);
                VF_CHECK(got.has_value(), hist << ": get(" << id << ") finds nothing");
                v2::playlist_row p = *got;
                std::vector<int64_t> parents{0};
                for (auto& kv : lists)
                    if (!is_under(kv.first, id) && (!p.is_persisted || kv.second.is_persisted))
                        parents.push_back(kv.first);
                int64_t parent = s.coin() ? p.parent_list_id : parents[s.below(parents.size())];
                std::vector<int64_t> sib;
                for (auto x : order[parent])
                    if (x != id)
                        sib.push_back(x);
                size_t at = s.below(sib.size() + 1);
                p.parent_list_id = parent;
                p.next_list_id = at < sib.size() ? sib[at] : 0;
                bool moved = p.parent_list_id != got->parent_list_id || p.next_list_id != got->next_list_id;
                unsigned what = static_cast<unsigned>(s.below(8));
                if (what & 1)
                    p.title = "M" + std::to_string(++serial);
                if (what & 2)
                    p.last_edit_time = g_time(s);
                if (what & 4)
                    p.is_explicitly_exported = !p.is_explicitly_exported;
                hist += " | move_list(" + std::to_string(id) + " -> parent " + std::to_string(parent) + ", before " + std::to_string(p.next_list_id) + ", fields " + std::to_string(what) + ")";
                pt.update(p);
                unlink(id);
                lists[id].title = p.title;
                lists[id].last_edit_time = p.last_edit_time;
                lists[id].is_explicitly_exported = p.is_explicitly_exported;
                lists[id].parent_list_id = parent;
                link(id, parent, p.next_list_id);
                if (moved)
                {
                    nt = true;
                    ctx.label(parent != got->parent_list_id ? "playlist:move-reparent" : "playlist:move-reorder");
                    if (what)
                        ctx.label("playlist:move+fields");
                }
                break;
            }
            case 3:
            case 4:
            {
                int64_t id = pick_full();
                int64_t track = 1 + static_cast<int64_t>(s.below(6));
                // one entity in four belongs to another database (the table is keyed by (list, database uuid, track)): the same track id
                // may then occur twice in a list, once per database
                bool foreign = s.below(4) == 0;
                std::string eu = foreign ? "foreign-uuid-" + std::to_string(s.below(2)) : uuid;
                v2::playlist_entity_row er{v2::PLAYLIST_ENTITY_ROW_ID_NONE, id, track, eu, 0, static_cast<int64_t>(s.below(3))};
                auto& ents = entries[id];
                auto same = std::find_if(ents.begin(), ents.end(), [&](const Ent& x) { return x.track == track && x.uuid == eu; });
                bool already = same != ents.end();
                size_t same_track = std::count_if(ents.begin(), ents.end(), [&](const Ent& x) { return x.track == track; });
                hist += " | add_back(" + std::to_string(id) + "," + std::to_string(track) + (foreign ? "," + eu : std::string()) + ")";
                int64_t eid = et.add_back(er);
                if (already)
                    VF_CHECK(eid == same->eid, hist << ": add_back of an existing entity returns id " << eid << ", the entity has id " << same->eid);
                else
                {
                    for (auto& kv : entries)
                        for (auto& x : kv.second)
                            VF_CHECK(x.eid != eid, hist << ": add_back of a new entity returns the id " << eid << " of another live entity");
                    ents.push_back(Ent{track, eu, er.membership_reference, eid});
                    ++same_track;
                }
                if (foreign)
                    ctx.label("entity:foreign-uuid");
                if (same_track >= 2)
                    ctx.label("entity:same-track-two-databases");
                if (same_track == 1)
                {
                    auto got = et.get(id, track);
                    VF_CHECK(got && got->id == eid && got->list_id == id && got->track_id == track && got->database_uuid == eu, hist << ": entity reads back differently");
                    if (!already)
                        VF_CHECK(got->membership_reference == er.membership_reference, hist << ": membership reference reads back as " << got->membership_reference);
                }
                ctx.label("entity:add_back");
                break;
            }
            case 5:
            {
                int64_t id = pick_full();
                if (entries[id].empty())
                    break;
                size_t i = s.below(entries[id].size());
                int64_t track = entries[id][i].track;
                // remove(list, track) names an entity by its track: only unambiguous tracks are removed
                if (std::count_if(entries[id].begin(), entries[id].end(), [&](const Ent& x) { return x.track == track; }) != 1)
                    break;
                hist += " | remove_entity(" + std::to_string(id) + "," + std::to_string(track) + ")";
                if (i + 1 != entries[id].size() && entries[id].size() >= 3)
                {
                    nt = true;
                    ctx.label("entity:remove-non-last");
                }
                et.remove(id, track);
                entries[id].erase(entries[id].begin() + i);
                VF_CHECK(!et.get(id, track), hist << ": removed entity is still found");
                break;
            }
            case 6:
            {
                int64_t id = pick();
                hist += " | clear(" + std::to_string(id) + ")";
                et.clear(id);
                entries[id].clear();
                ctx.label("entity:clear");
                break;
            }
            case 7:
            {
                int64_t id = pick();
                hist += " | remove_list(" + std::to_string(id) + ")";
                std::vector<int64_t> desc;                 // from the model, not from the library
                for (auto& kv : lists)
                    if (kv.first != id && is_under(kv.first, id))
                        desc.push_back(kv.first);
                auto lib_desc = pt.descendant_ids(id);
                std::sort(lib_desc.begin(), lib_desc.end());
                VF_CHECK(lib_desc == desc, hist << ": descendant_ids(" << id << ") differs from the written tree");
                pt.remove(id);
                unlink(id);
                order.erase(id);
                lists.erase(id);
                entries.erase(id);
                for (auto dsc : desc)
                {
                    lists.erase(dsc);
                    entries.erase(dsc);
                    order.erase(dsc);
                }
                VF_CHECK(!pt.get(id) && !pt.exists(id), hist << ": removed playlist is still found");
                ctx.label("playlist:remove");
                break;
            }
            default:
            {
                int64_t id = 50000 + static_cast<int64_t>(s.below(100));
                hist += " | nonexistent_list(" + std::to_string(id) + ")";
                VF_CHECK(!pt.get(id) && !pt.exists(id), hist << ": a nonexistent playlist is found");
                bool threw = false;
                try { pt.remove(id); } catch (const std::exception&) { threw = true; }
                VF_CHECK(threw, hist << ": playlist_table::remove() of a nonexistent row silently succeeded");
                v2::playlist_row p{id, "ghost", 0, true, 0, g_time(s), true};
                threw = false;
                try { pt.update(p); } catch (const std::exception&) { threw = true; }
                if (!threw)
                    ctx.label("playlist:update(nonexistent)-silent");
                VF_CHECK(!pt.get(id), hist << ": a nonexistent playlist came into being");
                threw = false;
                try { et.remove(lists.begin()->first, 777000 + static_cast<int64_t>(s.below(100))); } catch (const std::exception&) { threw = true; }
                VF_CHECK(threw, hist << ": playlist_entity_table::remove() of a nonexistent entity silently succeeded");
                ctx.label("playlist:nonexistent");
                break;
            }
        }
        VF_CHECK(lib.information().get() == info, hist << ": the Information row reads back differently from what was written");
        if (has_log)
        {
            auto cl = lib.change_log();
            auto by_id = [](const v2::change_log_row& a, const v2::change_log_row& b) { return a.id < b.id; };
            auto all = cl.all();
            std::sort(all.begin(), all.end(), by_id);      // all() and after() promise no order
            bool same = all.size() == log.size();
            for (size_t i = 0; same && i < all.size(); ++i)
                same = all[i].id == log[i].first && all[i].track_id == log[i].second;
            VF_CHECK(same, hist << ": change_log all() differs from the rows added");
            auto last = cl.last();
            VF_CHECK(last.has_value() == !log.empty() && (!last || (last->id == log.back().first && last->track_id == log.back().second)), hist << ": change_log last() is not the last row added");
            int64_t pivot = log.empty() ? 0 : log[s.below(log.size())].first - static_cast<int64_t>(s.below(2));
            auto aft = cl.after(pivot);
            std::sort(aft.begin(), aft.end(), by_id);
            size_t want = 0;
            for (auto& l : log)
                want += l.first > pivot;
            same = aft.size() == want;
            for (size_t i = 0; same && i < aft.size(); ++i)
                same = aft[i].id == log[log.size() - want + i].first && aft[i].track_id == log[log.size() - want + i].second;
            VF_CHECK(same, hist << ": change_log after(" << pivot << ") is not the suffix of rows with a larger id");
        }
        for (auto& kv : order)
        {   // sibling order as written: child_ids()/root_ids() and every row's next_list_id
            auto ids = kv.first == 0 ? pt.root_ids() : pt.child_ids(kv.first);
            std::vector<int64_t> got_order(ids.begin(), ids.end());
            VF_CHECK(got_order == kv.second, hist << ": children of " << kv.first << " read back in a different order than written");
            for (size_t i = 0; i < kv.second.size(); ++i)
                lists[kv.second[i]].next_list_id = i + 1 < kv.second.size() ? kv.second[i + 1] : 0;
        }
        {
            auto all = pt.all_ids();
            std::sort(all.begin(), all.end());
            std::vector<int64_t> want;
            for (auto& kv : lists)
                want.push_back(kv.first);
            VF_CHECK(all == want, hist << ": all_ids() differs from the set of rows written and not removed");
        }
        for (auto& kv : lists)
        {
            auto got = pt.get(kv.first);
            VF_CHECK(got.has_value(), hist << ": playlist " << kv.first << " is gone");
            VF_CHECK(r(*got) == r(kv.second), hist << ": playlist " << kv.first << " reads back as " << r(*got) << ", written " << r(kv.second));
            auto tids = et.track_ids(kv.first);
            std::vector<int64_t> want_tids;
            for (auto& x : entries[kv.first])
                want_tids.push_back(x.track);
            VF_CHECK(tids == want_tids, hist << ": track_ids(" << kv.first << ") differ from insertion order minus removed");
            // every entity row as written (the listing order of get_for_list is not documented: compared as a set)
            auto rows_ = et.get_for_list(kv.first);
            VF_CHECK(rows_.size() == entries[kv.first].size(), hist << ": get_for_list(" << kv.first << ") has " << rows_.size() << " rows, " << entries[kv.first].size() << " were written and not removed");
            for (auto& x : entries[kv.first])
            {
                bool found = false;
                for (auto& rw : rows_)
                    if (rw.id == x.eid)
                    {
                        found = true;
                        VF_CHECK(rw.list_id == kv.first && rw.track_id == x.track && rw.database_uuid == x.uuid && rw.membership_reference == x.mref,
                                 hist << ": entity " << x.eid << " of list " << kv.first << " reads back as (track " << rw.track_id << ", uuid " << rw.database_uuid
                                      << ", ref " << rw.membership_reference << "), written (track " << x.track << ", uuid " << x.uuid << ", ref " << x.mref << ")");
                    }
                VF_CHECK(found, hist << ": entity " << x.eid << " is missing from get_for_list(" << kv.first << ")");
            }
        }
    }
    ctx.describe = hist;
    ctx.key = hist;
    ctx.nontrivial = nt || lists.size() >= 2;
}

namespace fs = std::filesystem;
struct TableScratchDir
{
    std::string path;
    TableScratchDir()
    {
        static int n = 0;
        path = std::string(fs::exists("/dev/shm") ? "/dev/shm" : "/tmp") + "/verif-table-" + std::to_string(getpid()) + "-" + std::to_string(++n);
        fs::remove_all(path);
        fs::create_directories(path);
    }
    ~TableScratchDir()
    {
        std::error_code ec;
        fs::remove_all(path, ec);
    }
};
static std::string db2_digest(const std::string& dir)
{
    std::string o;
    std::vector<std::string> names;
    if (fs::exists(dir + "/Database2"))
        for (auto& en : fs::directory_iterator(dir + "/Database2"))
            if (en.is_regular_file())
                names.push_back(en.path().filename().string());
    std::sort(names.begin(), names.end());
    for (auto& n : names)
    {
        std::ifstream f(dir + "/Database2/" + n, std::ios::binary);
        std::stringstream ss;
        ss << f.rdbuf();
        o += n + "=" + std::to_string(ss.str().size()) + ":" + std::to_string(vf::fnv1a(ss.str())) + " ";
    }
    return o;
}

// every observer of the 2.x table API, rendered (shared by C16.table and C14.table)
static std::string observe_tables(v2::engine_library& L, e::engine_schema schema, const std::vector<int64_t>& tids, bool with_verify, size_t clip = 40)
{
    tt t = L.track();
    auto pt = L.playlist();
    auto et = L.playlist_entity();
    std::string o;
    auto ids = t.all_ids();
    std::sort(ids.begin(), ids.end());
    for (auto id : ids)
    {
        auto row = t.get(id);
        o += "track " + std::to_string(id) + " exists=" + r(t.exists(id)) + ":";
        for (auto& col : columns())
        {
            if (!has_col(schema, col))
                continue;
            o += std::string(" ") + col.name + "=" + col.get(t, id).substr(0, clip) + "|" + col.of(*row).substr(0, clip);
        }
        o += " by-path=" + r(t.find_id_by_path(row->path)) + "\n";
    }
    o += "missing: " + r(t.exists(98765)) + r(t.get(98765).has_value()) + r(t.find_id_by_path("no/such/path").has_value()) + "\n";
    auto pl = pt.all_ids();
    std::sort(pl.begin(), pl.end());
    for (auto id : pl)
    {
        auto row = pt.get(id);
        o += "list " + std::to_string(id) + " " + r(*row) + " exists=" + r(pt.exists(id)) + " children=";
        for (auto x : pt.child_ids(id))
            o += std::to_string(x) + ",";
        o += " desc=";
        auto ds = pt.descendant_ids(id);
        std::sort(ds.begin(), ds.end());
        for (auto x : ds)
            o += std::to_string(x) + ",";
        o += " find=" + r(pt.find_id(row->parent_list_id, row->title)) + " ids=" + std::to_string(pt.find_ids(row->title).size()) + " tracks=";
        for (auto x : et.track_ids(id))
            o += std::to_string(x) + ",";
        for (auto& er : et.get_for_list(id))
            o += "(" + std::to_string(er.id) + ":" + std::to_string(er.track_id) + ":" + std::to_string(er.next_entity_id) + ")";
        for (auto tid : tids)
            o += et.get(id, tid) ? "m" : "-";
        o += "\n";
    }
    o += "roots=";
    for (auto x : pt.root_ids())
        o += std::to_string(x) + ",";
    o += " find_root=" + r(pt.find_root_id("L0")) + " info=" + L.information().get().uuid.substr(0, 4) + "\n";
    o += "orphans=";
    for (auto x : et.track_ids(4242))
        o += std::to_string(x) + ",";
    o += "\n";
    {
        auto inf = L.information().get();
        o += "info " + std::to_string(inf.id) + " " + inf.uuid + " " + std::to_string(inf.schema_version_major) + "." + std::to_string(inf.schema_version_minor) + "." +
             std::to_string(inf.schema_version_patch) + " " + std::to_string(inf.current_played_indicator) + " " + std::to_string(inf.last_rekord_box_library_import_read_counter) + "\n";
    }
    if (schema < e::engine_schema::schema_2_20_3)
    {
        auto cl = L.change_log();
        o += "changelog=";
        for (auto& x : cl.all())
            o += std::to_string(x.id) + ":" + std::to_string(x.track_id) + ",";
        auto last = cl.last();
        o += " last=" + (last ? std::to_string(last->id) : std::string("-")) + " after=" + std::to_string(cl.after(last ? last->id - 1 : 0).size()) + "\n";
    }
    if (with_verify)
        L.verify();
    return o;
}

// ---------------------------------------------------------------------------------------------- C16 at table level
// every observing operation of the 2.x table API, applied twice: no modifying statement, no change counter movement, same answers
static void prop_c16_table(const vf::Case& c, Ctx& ctx)
{
    S h(c[0]);
    auto schema = e::supported_v2_schemas[h.below(e::supported_v2_schemas.size())];
    ctx.label("schema=" + e::to_string(schema));
    bool on_disk = h.coin();
    ctx.label(on_disk ? "on-disk" : "in-memory");
    TableScratchDir sd;
    std::string dir = sd.path + "/Engine Library";
    auto lib = on_disk ? v2::engine_library::create(dir, schema) : v2::engine_library::create_temporary(schema);
    tt t = lib.track();
    auto pt = lib.playlist();
    auto et = lib.playlist_entity();
    std::string uuid = lib.information().get().uuid;
    Distinct d;
    std::vector<int64_t> tids, lids;
    size_t nrows = 1 + h.below(3);
    for (size_t i = 0; i < nrows; ++i)
    {
        S s(c.size() > 1 + i ? c[1 + i] : S::empty());
        tids.push_back(t.add(gen_row(s, ctx, d, static_cast<int>(i + 1))));
    }
    size_t nlists = 1 + h.below(4);
    for (size_t i = 0; i < nlists; ++i)
    {
        int64_t parent = (i > 0 && h.coin()) ? lids[h.below(lids.size())] : 0;
        lids.push_back(pt.add(v2::playlist_row{0, "L" + std::to_string(i), parent, true, 0, g_time(h), true}));
        for (auto tid : tids)
            if (h.coin())
                et.add_back(v2::playlist_entity_row{0, lids.back(), tid, uuid, 0, 0});
    }
    if (h.coin())
    {
        // rows the table API accepts although nothing refers to them properly: an entity of a list that does not exist, an entity of
        // a track that does not exist (observers must leave them alone like everything else)
        et.add_back(v2::playlist_entity_row{0, 4242, tids[0], uuid, 0, 0});
        et.add_back(v2::playlist_entity_row{0, lids[0], 987654, uuid, 0, 0});
        ctx.label("dangling-entities");
    }
    if (h.coin())
    {
        // rows that are related by VALUE rather than by id (states a player reaches in ordinary use): a track stamped with the library's
        // current played indicator ("played in this session"), a track whose origin is this very library, an entity of another database
        auto info = lib.information().get();
        size_t k = h.below(tids.size());
        t.set_played_indicator(tids[k], std::optional<int64_t>{info.current_played_indicator});
        t.set_is_played(tids[k], true);
        t.set_origin_database_uuid(tids[h.below(tids.size())], uuid);
        et.add_back(v2::playlist_entity_row{0, lids[0], tids[0], "foreign-uuid-0", 0, 0});
        if (h.coin())
            lib.information().update_current_played_indicator(info.current_played_indicator);  // rewrite of the same value
        ctx.label("value-related-rows");
    }
    auto observe_lib = [&](v2::engine_library& L) { return observe_tables(L, schema, tids, true); };
    auto observe_all = [&]() { return observe_lib(lib); };
    auto& sh = vfshim::state();
    sh.record_sql = true;
    vfshim::reset_counters();
    std::string o1 = observe_all();
    sqlite3* conn = sh.last_db;
    int ch0 = conn ? sqlite3_total_changes(conn) : 0;
    std::string o2 = observe_all();
    uint64_t writes = sh.write_steps;
    std::string first = sh.write_sql.empty() ? "" : sh.write_sql[0];
    sh.record_sql = false;
    int ch1 = conn ? sqlite3_total_changes(conn) : 0;
    ctx.describe = "schema " + e::to_string(schema) + " " + std::to_string(nrows) + " track rows, " + std::to_string(nlists) + " playlists";
    ctx.key = ctx.describe + o1.substr(0, 200);
    ctx.nontrivial = nlists >= 2;
    VF_CHECK(writes == 0, ctx.describe << ": observing through the table API executed " << writes << " modifying statement(s), first: " << first.substr(0, 200));
    VF_CHECK(ch0 == ch1, ctx.describe << ": sqlite3_total_changes moved during observation");
    VF_CHECK(o1 == o2, ctx.describe << ": repeated observation through the table API gives a different answer");
    if (on_disk)
    {
        // release everything, then: exists(), load() + observation + verify() must leave the stored files byte-identical
        {
            v2::engine_library gone = std::move(lib);
            (void)gone;
        }
        t = tt{nullptr};
        pt = v2::playlist_table{nullptr};
        et = v2::playlist_entity_table{nullptr};
        std::string d0 = db2_digest(dir);
        VF_CHECK(v2::engine_library::exists(dir), ctx.describe << ": engine_library::exists() false");
        VF_CHECK(e::database_exists(dir), ctx.describe << ": database_exists() false");
        std::string d1 = db2_digest(dir);
        VF_CHECK(d0 == d1, ctx.describe << ": exists() changed the stored files: " << d0 << " -> " << d1);
        {
            auto again = v2::engine_library::load(dir);
            std::string o3 = observe_lib(again);
            VF_CHECK(o3 == o1, ctx.describe << ": observation after engine_library::load differs from the one before closing");
        }
        std::string d2 = db2_digest(dir);
        VF_CHECK(d0 == d2, ctx.describe << ": engine_library::load + observation changed the stored files: " << d0 << " -> " << d2);
        {
            e::engine_schema loaded{};
            auto db = e::load_database(dir, loaded);
            (void)db.tracks();
            (void)db.crates();
            db.verify();
        }
        std::string d3 = db2_digest(dir);
        VF_CHECK(d0 == d3, ctx.describe << ": load_database + listings changed the stored files: " << d0 << " -> " << d3);
        ctx.label("files-compared");
    }
}


// ---------------------------------------------------------------------------------------------- C14 at table level
// every mutating call of the 2.x table API, with a fault injected at each of its modifying statements / its COMMIT in turn
struct TState
{
    v2::engine_library lib;
    std::vector<int64_t> tids, lids;
    std::string uuid;
    std::string hist;
};
static const std::vector<std::string>& table_mutators()
{
    static const std::vector<std::string> m = {"playlist.add",  "playlist.update", "playlist.move", "playlist.remove", "entity.add_back", "entity.remove",
                                               "entity.clear",  "track.add",       "track.update",  "track.remove",    "track.set_column", "change_log.add",
                                               "information.played_indicator"};
    return m;
}
static std::unique_ptr<TState> build_tstate(e::engine_schema schema, const vf::Case& c, Ctx& ctx)
{
    S h(c[0]);
    h.raw();  // schema
    h.raw();  // mutator
    auto w = std::unique_ptr<TState>(new TState{v2::engine_library::create_temporary(schema), {}, {}, "", ""});
    tt t = w->lib.track();
    auto pt = w->lib.playlist();
    auto et = w->lib.playlist_entity();
    w->uuid = w->lib.information().get().uuid;
    Distinct d;
    size_t nrows = 1 + h.below(3);
    for (size_t i = 0; i < nrows; ++i)
    {
        S s(c.size() > 1 + i ? c[1 + i] : S::empty());
        w->tids.push_back(t.add(gen_row(s, ctx, d, static_cast<int>(i + 1))));
    }
    size_t nlists = 2 + h.below(4);
    for (size_t i = 0; i < nlists; ++i)
    {
        int64_t parent = (i > 0 && h.below(3) != 0) ? w->lids[h.below(w->lids.size())] : 0;
        w->lids.push_back(pt.add(v2::playlist_row{0, "L" + std::to_string(i), parent, true, 0, g_time(h), true}));
        for (auto tid : w->tids)
            if (h.coin())
                et.add_back(v2::playlist_entity_row{0, w->lids.back(), tid, w->uuid, 0, 0});
    }
    w->hist = std::to_string(nrows) + " tracks, " + std::to_string(nlists) + " playlists";
    return w;
}
// performs mutator m with arguments drawn from s (a pure function of the state and s); returns a description; "(no ...)" = nothing to do
static std::string table_mutation(TState& w, e::engine_schema schema, size_t m, S s, Ctx& ctx, bool& threw)
{
    tt t = w.lib.track();
    auto pt = w.lib.playlist();
    auto et = w.lib.playlist_entity();
    const std::string& name = table_mutators()[m];
    std::string desc = name;
    Distinct d;
    d.n = 500000;
    threw = false;
    auto lid = [&]() { return w.lids[s.below(w.lids.size())]; };
    auto tid = [&]() { return w.tids[s.below(w.tids.size())]; };
    try
    {
        if (name == "playlist.add")
        {
            int64_t parent = s.coin() ? 0 : lid();
            if (parent != 0 && !pt.exists(parent))
                parent = 0;
            auto sib = parent == 0 ? pt.root_ids() : pt.child_ids(parent);
            std::vector<int64_t> sv(sib.begin(), sib.end());
            size_t at = s.below(sv.size() + 1);
            int64_t next = at < sv.size() ? sv[at] : 0;
            desc += "(parent " + std::to_string(parent) + ", before " + std::to_string(next) + ")";
            vfshim::CallScope in_library_call;
            pt.add(v2::playlist_row{0, "N" + std::to_string(s.below(1000)), parent, true, next, g_time(s), s.coin()});
        }
        else if (name == "playlist.update" || name == "playlist.move")
        {
            int64_t id = lid();
            auto got = pt.get(id);
            if (!got)
                return desc + "(no such list any more)";
            v2::playlist_row p = *got;
            if (name == "playlist.move")
            {
                auto desc_ids = pt.descendant_ids(id);
                std::vector<std::pair<int64_t, int64_t>> targets;   // (parent, next) different from the current position
                std::vector<int64_t> parents{0};
                for (auto x : pt.all_ids())
                    if (x != id && std::find(desc_ids.begin(), desc_ids.end(), x) == desc_ids.end())
                        parents.push_back(x);
                std::sort(parents.begin(), parents.end());
                for (auto par : parents)
                {
                    auto sib = par == 0 ? pt.root_ids() : pt.child_ids(par);
                    std::vector<int64_t> sv;
                    for (auto x : sib)
                        if (x != id)
                            sv.push_back(x);
                    sv.push_back(0);
                    for (auto nx : sv)
                        if (par != p.parent_list_id || nx != p.next_list_id)
                            targets.emplace_back(par, nx);
                }
                if (targets.empty())
                    return desc + "(nothing to move to)";
                auto tg = targets[s.below(targets.size())];
                p.parent_list_id = tg.first;
                p.next_list_id = tg.second;
                desc += "(" + std::to_string(id) + " -> parent " + std::to_string(tg.first) + ", before " + std::to_string(tg.second) + ")";
            }
            else
                desc += "(" + std::to_string(id) + ")";
            p.title = "U" + std::to_string(s.below(1000));
            p.last_edit_time = g_time(s);
            p.is_explicitly_exported = !p.is_explicitly_exported;
vfshim::CallScope in_library_call;
            pt.update(p);
        }
        else if (name == "playlist.remove")
        {
            // prefer a playlist that has descendants (more statements)
            int64_t id = lid();
            for (auto x : w.lids)
                if (s.coin() && pt.exists(x) && !pt.descendant_ids(x).empty())
                {
                    id = x;
                    break;
                }
            if (!pt.exists(id))
                return desc + "(no such list any more)";
            desc += "(" + std::to_string(id) + ", " + std::to_string(pt.descendant_ids(id).size()) + " descendants)";
vfshim::CallScope in_library_call;
            pt.remove(id);
        }
        else if (name == "entity.add_back")
        {
            int64_t l = lid(), tr = s.below(4) == 0 ? 555000 + static_cast<int64_t>(s.below(9)) : tid();
            if (et.get(l, tr))
                for (auto x : w.lids)
                    for (auto y : w.tids)
                        if (!et.get(x, y))
                        {
                            l = x;
                            tr = y;
                        }
            if (et.get(l, tr))
                return desc + "(no free pair)";
            desc += "(" + std::to_string(l) + "," + std::to_string(tr) + ")";
vfshim::CallScope in_library_call;
            et.add_back(v2::playlist_entity_row{0, l, tr, w.uuid, 0, static_cast<int64_t>(s.below(3))});
        }
        else if (name == "entity.remove" || name == "entity.clear")
        {
            int64_t l = lid();
            for (auto x : w.lids)
                if (et.track_ids(l).empty() && !et.track_ids(x).empty())
                    l = x;
            auto tr = et.track_ids(l);
            if (tr.empty())
                return desc + "(no entity anywhere)";
            if (name == "entity.remove")
            {
                int64_t x = tr[s.below(tr.size())];
                desc += "(" + std::to_string(l) + "," + std::to_string(x) + " of " + std::to_string(tr.size()) + ")";
vfshim::CallScope in_library_call;
                et.remove(l, x);
            }
            else
            {
                desc += "(" + std::to_string(l) + ", " + std::to_string(tr.size()) + " entries)";
vfshim::CallScope in_library_call;
                et.clear(l);
            }
        }
        else if (name == "track.add")
        {
            auto row = gen_row(s, ctx, d, 99);
            desc += "(" + row.path.substr(0, 30) + ")";
vfshim::CallScope in_library_call;
            t.add(row);
        }
        else if (name == "track.update")
        {
            int64_t id = tid();
            if (!t.exists(id))
                return desc + "(no such track any more)";
            auto row = gen_row(s, ctx, d, 98);
            row.id = id;
            desc += "(" + std::to_string(id) + ")";
vfshim::CallScope in_library_call;
            t.update(row);
        }
        else if (name == "track.remove")
        {
            int64_t id = tid();
            if (!t.exists(id))
                return desc + "(no such track any more)";
            desc += "(" + std::to_string(id) + ")";
vfshim::CallScope in_library_call;
            t.remove(id);
        }
        else if (name == "track.set_column")
        {
            int64_t id = tid();
            if (!t.exists(id))
                return desc + "(no such track any more)";
            std::vector<const Col*> cols;
            for (auto& col : columns())
                if (has_col(schema, col))
                    cols.push_back(&col);
            const Col* col = cols[s.below(cols.size())];
            auto row = gen_row(s, ctx, d, 97);
            desc += "(" + std::to_string(id) + ", " + col->name + ")";
vfshim::CallScope in_library_call;
            col->set(t, id, row);
        }
        else if (name == "change_log.add")
        {
            if (!(schema < e::engine_schema::schema_2_20_3))
                return desc + "(no change log in this schema)";
            int tr = static_cast<int>(s.below(1000));
            desc += "(" + std::to_string(tr) + ")";
vfshim::CallScope in_library_call;
            w.lib.change_log().add(tr);
        }
        else
        {
            int64_t v = static_cast<int64_t>(s.raw());
            desc += "(" + std::to_string(v) + ")";
vfshim::CallScope in_library_call;
            w.lib.information().update_current_played_indicator(v);
        }
    }
    catch (const vf::Fail&)
    {
        throw;
    }
    catch (const std::exception& ex)
    {
        threw = true;
        desc += std::string(" threw ") + ex.what();
    }
    return desc;
}
static std::string first_diff(const std::string& a, const std::string& b)
{
    std::istringstream x(a), y(b);
    std::string la, lb;
    while (true)
    {
        bool ga = static_cast<bool>(std::getline(x, la)), gb = static_cast<bool>(std::getline(y, lb));
        if (!ga && !gb)
            return "(no difference)";
        if (!ga || !gb || la != lb)
            return "before: " + (ga ? la.substr(0, 400) : std::string("<end>")) + "  after: " + (gb ? lb.substr(0, 400) : std::string("<end>"));
    }
}
static void prop_c14_table(const vf::Case& c, Ctx& ctx)
{
    S h(c[0]);
    auto schema = e::supported_v2_schemas[h.below(e::supported_v2_schemas.size())];
    ctx.label("schema=" + e::to_string(schema));
    size_t m = h.below(table_mutators().size());
    const std::string& mname = table_mutators()[m];
    ctx.label("table:" + mname);
    const vf::Record& oprec = c.size() > 4 ? c[4] : vf::S::empty();
    auto& sh = vfshim::state();
    vfshim::disarm();
    uint64_t W = 0, R = 0;
    {
        auto w = build_tstate(schema, c, ctx);
        bool threw = false;
        vfshim::reset_counters();
        std::string desc = table_mutation(*w, schema, m, S(oprec), ctx, threw);
        W = sh.fault_points;
        R = sh.read_points;
        ctx.describe = "schema " + e::to_string(schema) + " " + w->hist + " || " + desc + " [W=" + std::to_string(W) + "]";
        ctx.key = ctx.describe;
        if (threw || desc.find("(no") != std::string::npos)
        {
            ctx.label("op-not-applicable");
            return;
        }
    }
    if (W == 0)
    {
        ctx.label("W=0");
        return;
    }
    if (W >= 2)
        ctx.label("W>=2");
    if (W >= 2)
        ctx.label("W>=2:" + mname);
    ctx.nontrivial = W >= 2;
    for (uint64_t k = 1; k <= W; ++k)
    {
        auto w = build_tstate(schema, c, ctx);
        std::vector<int64_t> probe = w->tids;
        std::string before = observe_tables(w->lib, schema, probe, false, 1000000);
        sqlite3* conn_before = sh.last_db;
        std::string raw_before = conn_before ? vfraw::raw_tables(conn_before) : std::string();
        bool threw = false;
        vfshim::arm(k);
        table_mutation(*w, schema, m, S(oprec), ctx, threw);
        bool fired = sh.fired;
        vfshim::disarm();
        std::string where = "2.x table API " + mname + " leaves a partial update or an unusable library: " + ctx.describe + " fault at statement " + std::to_string(k) + "/" + std::to_string(W);
        VF_CHECK(fired, where << ": the fault position was not reached (operation is not deterministic?)");
        VF_CHECK(threw, where << ": the call did not report the failed statement");
        sqlite3* conn = sh.last_db;
        std::string after = observe_tables(w->lib, schema, probe, false, 1000000);
        VF_CHECK(before == after, where << ": observable state changed although the call failed: " << first_diff(before, after));
        VF_CHECK(!conn || sqlite3_get_autocommit(conn) != 0, where << ": a transaction was left open");
        if (conn && conn == conn_before)
        {
            // the stored tables themselves, through an independent reader
            std::string raw_after = vfraw::raw_tables(conn);
            VF_CHECK(raw_before == raw_after, where << ": the stored tables changed although the call failed: " << first_diff(raw_before, raw_after));
            ctx.label("raw-tables-compared");
        }
        bool threw2 = false;
        std::string d3 = table_mutation(*w, schema, m, S(oprec), ctx, threw2);
        VF_CHECK(!threw2, where << ": after the failed call the same operation no longer succeeds: " << d3);
        VF_CHECK(!conn || sqlite3_get_autocommit(conn) != 0, where << ": a transaction was left open after the retry");
        if (observe_tables(w->lib, schema, probe, false, 1000000) != before)
            ctx.label("retry-has-effect");
        if (k >= 2)
            ctx.label("k>=2");
    }
    // second fault class: every step of the statements the call only reads with (counted while inside the library call)
    for (uint64_t k = 1; k <= R && k <= 40; ++k)
    {
        auto w = build_tstate(schema, c, ctx);
        std::vector<int64_t> probe = w->tids;
        std::string before = observe_tables(w->lib, schema, probe, false, 1000000);
        sqlite3* conn_before = sh.last_db;
        std::string raw_before = conn_before ? vfraw::raw_tables(conn_before) : std::string();
        bool threw = false;
        vfshim::arm(k, true);
        table_mutation(*w, schema, m, S(oprec), ctx, threw);
        bool fired = sh.fired;
        vfshim::disarm();
        std::string where = "2.x table API " + mname + " leaves a partial update or an unusable library: " + ctx.describe + " fault at READ statement " + std::to_string(k) + "/" + std::to_string(R);
        VF_CHECK(fired, where << ": the fault position was not reached (operation is not deterministic?)");
        VF_CHECK(threw, where << ": the call did not report the failed statement");
        sqlite3* conn = sh.last_db;
        std::string after = observe_tables(w->lib, schema, probe, false, 1000000);
        VF_CHECK(before == after, where << ": observable state changed although the call failed: " << first_diff(before, after));
        VF_CHECK(!conn || sqlite3_get_autocommit(conn) != 0, where << ": a transaction was left open");
        if (conn && conn == conn_before)
        {
            // the stored tables themselves, through an independent reader
            std::string raw_after = vfraw::raw_tables(conn);
            VF_CHECK(raw_before == raw_after, where << ": the stored tables changed although the call failed: " << first_diff(raw_before, raw_after));
            ctx.label("raw-tables-compared");
        }
        bool threw2 = false;
        std::string d3 = table_mutation(*w, schema, m, S(oprec), ctx, threw2);
        VF_CHECK(!threw2, where << ": after the failed call the same operation no longer succeeds: " << d3);
        ctx.label("read-fault");
    }
}

int main(int argc, char** argv)
{
    std::vector<vf::PropSpec> specs;
    {
        vf::PropSpec p;
        p.id = "C14.table";
        p.fn = prop_c14_table;
        p.rec_min = 5;
        p.rec_max = 5;
        p.rec_len = 900;
        p.watchdog_s = 120;
        specs.push_back(p);
    }
    {
        vf::PropSpec p;
        p.id = "C16.table";
        p.fn = prop_c16_table;
        p.rec_min = 4;
        p.rec_max = 4;
        p.rec_len = 900;
        p.watchdog_s = 60;
        specs.push_back(p);
    }
    {
        vf::PropSpec p;
        p.id = "C18";
        p.fn = prop_c18;
        p.rec_min = 2;
        p.rec_max = 10;
        p.rec_len = 900;
        p.watchdog_s = 60;
        specs.push_back(p);
    }
    {
        vf::PropSpec p;
        p.id = "C18.lists";
        p.fn = prop_c18_lists;
        p.rec_min = 2;
        p.rec_max = 24;
        p.rec_len = 16;
        p.watchdog_s = 60;
        specs.push_back(p);
    }
    {
        // the same ordered-list model, attributed to C09 (playlist / playlist-entity listings at table level)
        vf::PropSpec p = specs.back();
        p.id = "C09.table";
        specs.push_back(p);
    }
    return vf::pbt_main(argc, argv, specs);
}
