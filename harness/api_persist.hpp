// On-disk and observation properties: C10 (reopen), C11 (independent reader), C16 (observers do not modify), C15 (hostile arguments).
#pragma once
#include <sqlite3.h>

#include <filesystem>
#include <fstream>

#include "api_crate.hpp"
#include "common/raw_tables.hpp"
#include "common/sqlite_shim.hpp"
#include "refcodec/refcodec.hpp"

namespace api
{
namespace fs = std::filesystem;

// ---------------------------------------------------------------------------------------------- scratch directories
struct ScratchDir
{
    std::string path;
    ScratchDir()
    {
        static int n = 0;
        std::string base = fs::exists("/dev/shm") ? "/dev/shm" : fs::temp_directory_path().string();
        path = base + "/verif-api-" + std::to_string(getpid()) + "-" + std::to_string(++n);
        fs::remove_all(path);
        fs::create_directories(path);
    }
    ~ScratchDir()
    {
        std::error_code ec;
        fs::remove_all(path, ec);
    }
    std::string lib() const { return path + "/Engine Library"; }
};

// ---------------------------------------------------------------------------------------------- Obs(db)
template <class F>
std::string guarded(F f)
{
    try
    {
        return f();
    }
    catch (const std::exception& ex)
    {
        return std::string("EXC:") + ex.what();
    }
}
inline std::string ids_sorted_str(std::vector<int64_t> v) { return ids_str(sorted(std::move(v))); }

// canonical dump through the public API only
inline std::string observe(dj::database& db, bool v2)
{
    std::string o;
    o += "uuid-present=" + std::string(db.uuid().empty() ? "0" : "1") + " version=" + db.version_name() + "\n";
    auto tracks = db.tracks();
    std::sort(tracks.begin(), tracks.end(), [](const dj::track& a, const dj::track& b) { return a.id() < b.id(); });
    std::set<std::string> paths;
    for (auto& t : tracks)
    {
        o += "track " + std::to_string(t.id()) + " valid=" + std::to_string(t.is_valid()) + "\n";
        o += "  snapshot: " + guarded([&] { return render(fields_of(t.snapshot())); }) + "\n";
        o += "  getters:  " + guarded([&] { return render(fields_via_getters(t)); }) + "\n";
        o += "  file: " + guarded([&] { return hexs(t.filename()) + " " + hexs(t.file_extension()); }) + "\n";
        o += "  in-crates: " + guarded([&] { return ids_sorted_str(ids_of(t.containing_crates())); }) + "\n";
        try
        {
            paths.insert(t.relative_path());
        }
        catch (const std::exception&)
        {
        }
        o += "  by-id: " + guarded([&] { return std::string(db.track_by_id(t.id()) ? "found" : "missing"); }) + "\n";
    }
    // ids that tracks() does not list but track_by_id() resolves (e.g. the placeholder row some 1.x schemas keep after the
    // newest track was removed): the handle comes from the public API, so observing through it is legitimate
    {
        int64_t mx = 0;
        std::set<int64_t> listed;
        for (auto& t : tracks)
        {
            mx = std::max(mx, t.id());
            listed.insert(t.id());
        }
        for (int64_t id = 1; id <= mx + 3; ++id)
        {
            if (listed.count(id))
                continue;
            std::optional<dj::track> h;
            try
            {
                h = db.track_by_id(id);
            }
            catch (const std::exception&)
            {
            }
            if (!h)
                continue;
            o += "unlisted track " + std::to_string(id) + " valid=" + guarded([&] { return std::to_string(h->is_valid()); }) + "\n";
            o += "  getters:  " + guarded([&] { return render(fields_via_getters(*h)); }) + "\n";
            o += "  snapshot: " + guarded([&] { return render(fields_of(h->snapshot())); }) + "\n";
        }
    }
    for (auto& p : paths)
        o += "tracks_by_relative_path(" + hexs(p) + ")=" + guarded([&] { return ids_sorted_str(ids_of(db.tracks_by_relative_path(p))); }) + "\n";
    auto crates = db.crates();
    std::sort(crates.begin(), crates.end(), [](const dj::crate& a, const dj::crate& b) { return a.id() < b.id(); });
    std::set<std::string> names;
    for (auto& c : crates)
    {
        o += "crate " + std::to_string(c.id()) + " valid=" + std::to_string(c.is_valid());
        o += " name=" + guarded([&] { return hexs(c.name()); });
        o += " parent=" + guarded([&] { auto p = c.parent(); return p ? std::to_string(p->id()) : std::string("-"); });
        o += " children=" + guarded([&] { return v2 ? ids_str(ids_of(c.children())) : ids_sorted_str(ids_of(c.children())); });
        o += " descendants=" + guarded([&] { return ids_sorted_str(ids_of(c.descendants())); });
        o += " tracks=" + guarded([&] { return v2 ? ids_str(ids_of(c.tracks())) : ids_sorted_str(ids_of(c.tracks())); });
        o += "\n";
        try
        {
            names.insert(c.name());
        }
        catch (const std::exception&)
        {
        }
    }
    o += "roots=" + guarded([&] { return v2 ? ids_str(ids_of(db.root_crates())) : ids_sorted_str(ids_of(db.root_crates())); }) + "\n";
    names.insert("no-such-crate");
    for (auto& n : names)
    {
        o += "by-name " + hexs(n) + ": all=" + guarded([&] { return ids_sorted_str(ids_of(db.crates_by_name(n))); });
        o += " root=" + guarded([&] { auto r = db.root_crate_by_name(n); return r ? std::to_string(r->id()) : std::string("-"); });
        for (auto& c : crates)
            o += " sub(" + std::to_string(c.id()) + ")=" + guarded([&] { auto r = c.sub_crate_by_name(n); return r ? std::to_string(r->id()) : std::string("-"); });
        o += "\n";
    }
    o += "crate_by_id(987654)=" + guarded([&] { return std::string(db.crate_by_id(987654) ? "found" : "-"); }) + " track_by_id(987654)=" +
         guarded([&] { return std::string(db.track_by_id(987654) ? "found" : "-"); }) + "\n";
    return o;
}
inline std::string first_diff_line(const std::string& a, const std::string& b)
{
    std::istringstream ia(a), ib(b);
    std::string la, lb;
    int n = 0;
    while (true)
    {
        bool ga = static_cast<bool>(std::getline(ia, la)), gb = static_cast<bool>(std::getline(ib, lb));
        ++n;
        if (!ga && !gb)
            return "(identical)";
        if (!ga || !gb || la != lb)
            return "line " + std::to_string(n) + ":\n      before: " + (ga ? la.substr(0, 1500) : "<end>") + "\n      after:  " + (gb ? lb.substr(0, 1500) : "<end>");
    }
}

// ---------------------------------------------------------------------------------------------- track operations in histories
// 12 create_track(full snapshot)  13 setter  14 update(snapshot)
inline void apply_track_op(World& w, S& s, Ctx& ctx, bool hostile)
{
    auto lt = w.live_tracks();
    int op = static_cast<int>(s.below(3));
    GenOpts o;
    o.v2 = w.v2;
    o.hostile = hostile;
    o.serial = ++w.serial;
    if (op == 0 || lt.empty())
    {
        dj::track_snapshot snap = gen_snapshot(s, ctx, o);
        w.hist += " | create_track(full)";
        try
        {
            dj::track t = w.db.create_track(snap);
            w.issued_track_ids.insert(t.id());
            w.tracks.push_back(TrackM{t, t.id(), true});
            w.hist += "=" + std::to_string(t.id());
            if (!snap.beatgrid.empty() || !snap.waveform.empty() || !snap.hot_cues.empty())
                ctx.label("track-with-performance-data");
        }
        catch (const std::exception&)
        {
            w.hist += "=rejected";
        }
        return;
    }
    TrackM& t = w.tracks[lt[s.below(lt.size())]];
    if (op == 1)
    {
        TrackModel tm{t.handle, dj::track_snapshot{}, ""};
        bool threw = false;
        size_t k = s.below(setters().size());
        if (s.below(6) == 5)
            for (size_t i = 0; i < setters().size(); ++i)
                if (std::string(setters()[i].name) == "relative_path")
                    k = i;   // the one setter with derived stored columns (file name, extension / file type)
        std::string d = apply_setter(k, s, ctx, w.schema, tm, threw, ++w.serial);
        w.hist += " | t" + std::to_string(t.id) + ".set_" + d.substr(0, 60);
        ctx.label(std::string(w.v2 ? "2.x:" : "1.x:") + "set_" + setters()[k].name);
        if (std::string(setters()[k].name) == "relative_path" && !threw)
            ctx.label("set_relative_path");
    }
    else
    {
        dj::track_snapshot snap = gen_snapshot(s, ctx, o);
        w.hist += " | t" + std::to_string(t.id) + ".update";
        try
        {
            t.handle.update(snap);
        }
        catch (const std::exception&)
        {
            w.hist += "=rejected";
        }
    }
}

// ---------------------------------------------------------------------------------------------- independent reader (C11)
struct Sql
{
    sqlite3* db = nullptr;
    bool owned = true;
    // borrows a connection that somebody else owns (the library's own connection, obtained through the sqlite3_step shim); statements
    // run through it here do not pass the shim, so they are neither counted nor failed
    explicit Sql(sqlite3* borrowed) : db(borrowed), owned(false) {}
    explicit Sql(const std::string& file)
    {
        if (sqlite3_open_v2(file.c_str(), &db, SQLITE_OPEN_READONLY, nullptr) != SQLITE_OK)
        {
            std::string m = db ? sqlite3_errmsg(db) : "?";
            if (db)
                sqlite3_close(db);
            db = nullptr;
            throw vf::Fail("independent reader cannot open " + file + ": " + m);
        }
    }
    ~Sql()
    {
        if (db && owned)
            sqlite3_close(db);
    }
    Sql(const Sql&) = delete;
    // rows of cells; NULL is rendered as the distinguished string "\x01NULL"
    std::vector<std::vector<std::string>> q(const std::string& sql)
    {
        std::vector<std::vector<std::string>> rows;
        sqlite3_stmt* st = nullptr;
        if (sqlite3_prepare_v2(db, sql.c_str(), -1, &st, nullptr) != SQLITE_OK)
            throw vf::Fail("independent reader: cannot prepare '" + sql + "': " + sqlite3_errmsg(db));
        int rc;
        while ((rc = sqlite3_step(st)) == SQLITE_ROW)
        {
            std::vector<std::string> r;
            for (int i = 0; i < sqlite3_column_count(st); ++i)
            {
                if (sqlite3_column_type(st, i) == SQLITE_NULL)
                    r.push_back("\x01NULL");
                else
                {
                    const void* p = sqlite3_column_blob(st, i);
                    int n = sqlite3_column_bytes(st, i);
                    r.emplace_back(static_cast<const char*>(p ? p : ""), static_cast<size_t>(n));
                }
            }
            rows.push_back(std::move(r));
        }
        std::string err = rc == SQLITE_DONE ? "" : sqlite3_errmsg(db);
        sqlite3_finalize(st);
        if (!err.empty())
            throw vf::Fail("independent reader: '" + sql + "' failed: " + err);
        return rows;
    }
    bool has_table(const std::string& name) { return !q("SELECT 1 FROM sqlite_master WHERE name='" + name + "'").empty(); }
};
inline bool is_null(const std::string& s) { return s == "\x01NULL"; }

using vfraw::raw_tables;

inline void check_blob(int kind, const std::string& bytes, const std::string& what)
{
    if (is_null(bytes) || bytes.empty())
        return;
    ref::Bytes b(bytes.begin(), bytes.end());
    try
    {
        if (ref::compressed(kind))
        {
            auto u = ref::unframe(b);
            if (u.no_data)
                return;
        }
        (void)ref::decode(kind, b);
    }
    catch (const ref::Malformed& m)
    {
        VF_CHECK(false, what << ": stored blob does not decode under the independent reader: " << m.what() << " (" << b.size() << " bytes)");
    }
}

inline void check_chain(const std::map<int64_t, int64_t>& next_of, const std::string& what)
{
    // one acyclic list with exactly one tail (next = 0) covering all rows
    if (next_of.empty())
        return;
    std::map<int64_t, int64_t> prev_of;
    int tails = 0;
    for (auto& kv : next_of)
    {
        if (kv.second == 0)
            ++tails;
        else
        {
            VF_CHECK(next_of.count(kv.second), what << ": row " << kv.first << " points at " << kv.second << " which is not in the same list");
            VF_CHECK(!prev_of.count(kv.second), what << ": two rows point at " << kv.second);
            prev_of[kv.second] = kv.first;
        }
    }
    VF_CHECK(tails == 1, what << ": " << tails << " rows have no successor (expected exactly one tail) among " << next_of.size() << " rows");
    // walk back from the tail
    int64_t cur = 0;
    for (auto& kv : next_of)
        if (kv.second == 0)
            cur = kv.first;
    size_t seen = 1;
    while (prev_of.count(cur) && seen <= next_of.size())
    {
        cur = prev_of[cur];
        ++seen;
    }
    VF_CHECK(seen == next_of.size(), what << ": chain from the tail covers " << seen << " of " << next_of.size() << " rows");
}

inline void check_stored(World& w, const std::string& dir, const std::string& where)
{
    // (2) verify()
    try
    {
        w.db.verify();
    }
    catch (const std::exception& ex)
    {
        VF_CHECK(false, where << ": verify() fails: " << ex.what());
    }
    std::vector<std::string> files = w.v2 ? std::vector<std::string>{dir + "/Database2/m.db"} : std::vector<std::string>{dir + "/m.db", dir + "/p.db"};
    for (auto& f : files)
    {
        Sql sql(f);
        auto ic = sql.q("PRAGMA integrity_check");
        VF_CHECK(ic.size() == 1 && ic[0][0] == "ok", where << ": integrity_check of " << f << ": " << (ic.empty() ? "?" : ic[0][0]));
        auto fk = sql.q("PRAGMA foreign_key_check");
        VF_CHECK(fk.empty(), where << ": foreign_key_check of " << f << " reports " << fk.size() << " violation(s), first: table " << fk[0][0] << " rowid "
                                   << fk[0][1] << " -> " << fk[0][2]);
    }
    if (!w.v2)
    {
        Sql m(dir + "/m.db"), p(dir + "/p.db");
        for (auto& r : p.q("SELECT id, trackData, highResolutionWaveFormData, overviewWaveFormData, beatData, quickCues, loops FROM PerformanceData"))
        {
            std::string t = where + ": PerformanceData of track " + r[0];
            check_blob(ref::V1_TRACK_DATA, r[1], t + " trackData");
            check_blob(ref::V1_HIGH_RES, r[2], t + " highResolutionWaveFormData");
            check_blob(ref::V1_OVERVIEW, r[3], t + " overviewWaveFormData");
            check_blob(ref::V1_BEAT_DATA, r[4], t + " beatData");
            check_blob(ref::V1_QUICK_CUES, r[5], t + " quickCues");
            check_blob(ref::V1_LOOPS, r[6], t + " loops");
        }
        // crates: three redundant encodings vs the model forest
        std::map<int64_t, std::pair<std::string, std::string>> crate_rows;  // id -> (title, path)
        for (auto& r : m.q("SELECT id, title, path FROM Crate"))
            crate_rows[std::stoll(r[0])] = {r[1], r[2]};
        std::map<int64_t, std::vector<int64_t>> parent_rows;
        for (auto& r : m.q("SELECT crateOriginId, crateParentId FROM CrateParentList"))
            parent_rows[std::stoll(r[0])].push_back(std::stoll(r[1]));
        std::set<std::pair<int64_t, int64_t>> hier;
        for (auto& r : m.q("SELECT crateId, crateIdChild FROM CrateHierarchy"))
            hier.insert({std::stoll(r[0]), std::stoll(r[1])});
        std::set<int64_t> live;
        for (auto& c : w.crates)
            if (c.live)
                live.insert(c.id);
        VF_CHECK(crate_rows.size() == live.size(), where << ": Crate has " << crate_rows.size() << " rows, the forest has " << live.size() << " crates");
        for (auto& kv : parent_rows)
            VF_CHECK(live.count(kv.first), where << ": CrateParentList has a row for crate " << kv.first << " which does not exist");
        std::set<std::pair<int64_t, int64_t>> want_hier;
        for (auto& c : w.crates)
        {
            if (!c.live)
                continue;
            VF_CHECK(crate_rows.count(c.id), where << ": crate " << c.id << " has no row in Crate");
            VF_CHECK(crate_rows[c.id].first == c.name, where << ": Crate.title of " << c.id << " is " << hexs(crate_rows[c.id].first) << ", expected " << hexs(c.name));
            std::string path = c.name + ";";
            int guard = 0;
            for (CrateM* a = w.by_id(c.parent); a && guard < 50; a = w.by_id(a->parent), ++guard)
            {
                path = a->name + ";" + path;
                want_hier.insert({a->id, c.id});
            }
            VF_CHECK(crate_rows[c.id].second == path, where << ": Crate.path of " << c.id << " is " << hexs(crate_rows[c.id].second, 80) << ", expected " << hexs(path, 80));
            auto& pr = parent_rows[c.id];
            VF_CHECK(pr.size() == 1, where << ": CrateParentList has " << pr.size() << " rows for crate " << c.id << " (expected exactly one)");
            int64_t want_parent = c.parent == 0 ? c.id : c.parent;
            VF_CHECK(pr[0] == want_parent, where << ": CrateParentList says the parent of " << c.id << " is " << pr[0] << ", expected " << want_parent);
        }
        if (hier != want_hier)
        {
            std::string a, b;
            for (auto& x : hier)
                if (!want_hier.count(x))
                    a += "(" + std::to_string(x.first) + "," + std::to_string(x.second) + ")";
            for (auto& x : want_hier)
                if (!hier.count(x))
                    b += "(" + std::to_string(x.first) + "," + std::to_string(x.second) + ")";
            VF_CHECK(false, where << ": CrateHierarchy is not the transitive closure of the forest: extra " << a << " missing " << b);
        }
        // per track derived columns
        std::map<int64_t, std::string> ext;
        for (auto& r : m.q("SELECT id, text FROM MetaData WHERE type = 13"))
            ext[std::stoll(r[0])] = r[1];
        for (auto& r : m.q("SELECT id, path, filename FROM Track WHERE path IS NOT NULL"))
        {
            std::string path = r[1];
            std::string fn = path.substr(path.rfind('/') == std::string::npos ? 0 : path.rfind('/') + 1);
            VF_CHECK(r[2] == fn, where << ": Track.filename of " << r[0] << " is " << hexs(r[2]) << " but the path's basename is " << hexs(fn));
            int64_t id = std::stoll(r[0]);
            bool has_ext = fn.rfind('.') != std::string::npos;
            std::string e = has_ext ? fn.substr(fn.rfind('.') + 1) : "";
            if (has_ext)
                VF_CHECK(ext.count(id) && ext[id] == e, where << ": extension metadata of track " << id << " is "
                                                                << (ext.count(id) ? hexs(ext[id]) : std::string("<absent>")) << " but the path's extension is " << hexs(e));
            else
                VF_CHECK(!ext.count(id) || is_null(ext[id]) || ext[id].empty(), where << ": track " << id << " has no extension but extension metadata " << hexs(ext[id]));
        }
    }
    else
    {
        Sql m(dir + "/Database2/m.db");
        auto info = m.q("SELECT uuid FROM Information");
        VF_CHECK(info.size() == 1, where << ": Information has " << info.size() << " rows");
        std::string uuid = info[0][0];
        for (auto& r : m.q("SELECT id, path, filename, fileType, originDatabaseUuid, originTrackId, trackData, overviewWaveFormData, beatData, quickCues, loops FROM Track"))
        {
            std::string t = where + ": track " + r[0];
            check_blob(ref::V2_TRACK_DATA, r[6], t + " trackData");
            check_blob(ref::V2_OVERVIEW, r[7], t + " overviewWaveFormData");
            check_blob(ref::V2_BEAT_DATA, r[8], t + " beatData");
            check_blob(ref::V2_QUICK_CUES, r[9], t + " quickCues");
            check_blob(ref::V2_LOOPS, r[10], t + " loops");
            std::string path = r[1];
            std::string fn = path.substr(path.rfind('/') == std::string::npos ? 0 : path.rfind('/') + 1);
            std::string e = fn.rfind('.') == std::string::npos ? "" : fn.substr(fn.rfind('.') + 1);
            VF_CHECK(r[2] == fn, t << ": filename column is " << hexs(r[2]) << " but the path's basename is " << hexs(fn));
            VF_CHECK(r[3] == e, t << ": fileType column is " << hexs(r[3]) << " but the path's extension is " << hexs(e));
            VF_CHECK(r[4] == uuid, t << ": originDatabaseUuid is " << hexs(r[4]) << " but the database uuid is " << hexs(uuid));
            VF_CHECK(r[5] == r[0], t << ": originTrackId is " << r[5]);
        }
        std::map<int64_t, std::map<int64_t, int64_t>> by_parent;
        std::set<int64_t> ids;
        for (auto& r : m.q("SELECT id, parentListId, nextListId FROM Playlist"))
        {
            by_parent[std::stoll(r[1])][std::stoll(r[0])] = std::stoll(r[2]);
            ids.insert(std::stoll(r[0]));
        }
        for (auto& kv : by_parent)
        {
            VF_CHECK(kv.first == 0 || ids.count(kv.first), where << ": playlists have the parent " << kv.first << " which does not exist");
            check_chain(kv.second, where + ": sibling chain under playlist " + std::to_string(kv.first));
        }
        std::map<int64_t, std::map<int64_t, int64_t>> by_list;
        for (auto& r : m.q("SELECT id, listId, nextEntityId FROM PlaylistEntity"))
            by_list[std::stoll(r[1])][std::stoll(r[0])] = std::stoll(r[2]);
        for (auto& kv : by_list)
        {
            VF_CHECK(ids.count(kv.first), where << ": playlist entities refer to list " << kv.first << " which does not exist");
            check_chain(kv.second, where + ": entity chain of playlist " + std::to_string(kv.first));
        }
        // the model forest agrees with the stored parents
        for (auto& c : w.crates)
            if (c.live)
                VF_CHECK(ids.count(c.id) && by_parent[c.parent].count(c.id), where << ": crate " << c.id << " is not stored under parent " << c.parent);
    }
}

// ---------------------------------------------------------------------------------------------- rebinding after reopen
inline std::unique_ptr<World> reopen(std::unique_ptr<World> old, const std::string& dir, e::engine_schema& loaded)
{
    // keep only plain model data, drop every handle, then load again
    struct CM
    {
        int64_t id;
        std::string name;
        int64_t parent;
        bool live;
    };
    std::vector<CM> cms;
    for (auto& c : old->crates)
        cms.push_back({c.id, c.name, c.parent, c.live});
    std::vector<std::pair<int64_t, bool>> tms;
    for (auto& t : old->tracks)
        tms.push_back({t.id, t.live});
    auto members = old->members;
    auto order = old->order;
    auto entries = old->entries;
    auto ic = old->issued_crate_ids;
    auto it = old->issued_track_ids;
    int serial = old->serial;
    std::string hist = old->hist;
    auto schema = old->schema;
    int md = old->max_depth;
    old.reset();  // releases the database and every crate / track handle
    dj::database db = e::load_database(dir, loaded);
    auto w = std::make_unique<World>(schema, db);
    w->members = members;
    w->order = order;
    w->entries = entries;
    w->issued_crate_ids = ic;
    w->issued_track_ids = it;
    w->serial = serial;
    w->hist = hist + " | REOPEN";
    w->max_depth = md;
    for (auto& c : cms)
    {
        if (!c.live)
            continue;
        auto h = db.crate_by_id(c.id);
        VF_CHECK(h.has_value(), w->hist << ": crate " << c.id << " is gone after reopening");
        w->crates.push_back(CrateM{*h, c.id, c.name, c.parent, true});
    }
    for (auto& t : tms)
    {
        if (!t.second)
            continue;
        auto h = db.track_by_id(t.first);
        VF_CHECK(h.has_value(), w->hist << ": track " << t.first << " is gone after reopening");
        w->tracks.push_back(TrackM{*h, t.first, true});
    }
    return w;
}

inline void history_step(World& w, S& s, Ctx& ctx)
{
    if (s.below(3) == 0)
        apply_track_op(w, s, ctx, false);
    else
        apply_crate_op(w, s, ctx, OPS_FOREST | OPS_AFTER | OPS_MEMBERS);
}

inline bool rich_state(World& w)
{
    bool perf = false;
    for (auto& t : w.tracks)
        if (t.live)
            perf = true;
    bool nested = false;
    for (auto& c : w.crates)
        if (c.live && c.parent != 0)
            nested = true;
    return perf && (nested || !w.members.empty());
}

// ------------------------------------------------------------------------------------------------------ C10
inline void prop_c10(const vf::Case& c, Ctx& ctx)
{
    S h(c[0]);
    auto schema = pick_schema(h, ctx);
    ScratchDir sd;
    std::string dir = sd.lib();
    VF_CHECK(!e::database_exists(dir), "database_exists() is true for a directory that does not exist");
    bool created = false;
    e::engine_schema loaded{};
    std::unique_ptr<World> w;
    if (h.coin())
    {
        ctx.label("create_or_load:create");
        dj::database db = e::create_or_load_database(dir, schema, created, loaded);
        VF_CHECK(created, "create_or_load_database on an empty directory reports created == false");
        // (the header says loaded_schema is not defined when a new database was created; the version actually created is
        //  checked through version_name() and by the reload below)
        VF_CHECK(db.version_name() == sname(schema), "create_or_load_database created version " << db.version_name() << " instead of " << sname(schema));
        w = std::make_unique<World>(schema, db);
    }
    else
        w = std::make_unique<World>(schema, e::create_database(dir, schema));
    w->hist = "schema " + sname(schema) + " on disk";
    VF_CHECK(e::database_exists(dir), "database_exists() is false right after creation");
    if (h.coin())
        prelude(*w, h, ctx);
    if (h.coin())
        prelude_deep(*w, h, ctx);
    if (h.below(12) == 0)
    {
        // a value far larger than anything else in the library (0.1 / 1.2 / 5 MB of text): the connection that wrote it and the
        // connection that reads it back after reopening must agree on what fits
        static const size_t sizes[] = {100000, 1200000, 5000000};
        size_t nbytes = sizes[h.below(3)];
        std::string big(nbytes, 'x');
        for (size_t i = 0; i < nbytes; i += 7)
            big[i] = static_cast<char>('a' + (i / 7) % 26);
        dj::track_snapshot snap;
        snap.relative_path = "big/value-" + std::to_string(nbytes) + ".mp3";
        snap.comment = big;
        dj::track t = w->db.create_track(snap);
        w->issued_track_ids.insert(t.id());
        w->tracks.push_back(TrackM{t, t.id(), true});
        w->hist += " | track " + std::to_string(t.id()) + " with a comment of " + std::to_string(nbytes) + " bytes";
        ctx.label("value>=100KB");
    }
    int reopens = 0;
    bool rich = false;
    // close points: decoded from the header (up to three, anywhere in the history) plus always at the end
    std::set<size_t> close_at;
    size_t n = c.size();
    for (int i = 0; i < 3; ++i)
        if (h.coin() && n > 2)
            close_at.insert(1 + h.below(n - 1));
    close_at.insert(n - 1);
    for (size_t r = 1; r < n; ++r)
    {
        S s(c[r]);
        history_step(*w, s, ctx);
        if (close_at.count(r))
        {
            rich = rich || rich_state(*w);
            std::string before = observe(w->db, w->v2);
            std::string hist = w->hist;
            bool use_col = (r == n - 1) && h.coin();
            if (use_col)
            {
                // create-or-load must load (not create) and report the stored schema
                w.reset();
                bool cr2 = true;
                e::engine_schema ld2{};
                // the schema argument only matters when nothing exists: any of the 18 (same or other generation) must lead to a load
                e::engine_schema other = schemas()[h.below(schemas().size())];
                ctx.label(is_v2(other) == is_v2(schema) ? "create_or_load:same-generation-arg" : "create_or_load:other-generation-arg");
                {
                    dj::database db2 = e::create_or_load_database(dir, other, cr2, ld2);
                    VF_CHECK(!cr2, hist << ": create_or_load_database on an existing library reports created == true");
                    VF_CHECK(ld2 == schema, hist << ": create_or_load_database loaded schema " << sname(ld2) << ", the library was created as " << sname(schema));
                    std::string after = observe(db2, is_v2(schema));
                    VF_CHECK(before == after, hist << ": state differs after create_or_load: " << first_diff_line(before, after));
                }
                {
                    // and the directory is still one loadable library afterwards
                    e::engine_schema ld3{};
                    std::string what;
                    try
                    {
                        dj::database db3 = e::load_database(dir, ld3);
                        VF_CHECK(ld3 == schema, hist << ": after create_or_load the library loads as " << sname(ld3));
                    }
                    catch (const vf::Fail&)
                    {
                        throw;
                    }
                    catch (const std::exception& ex)
                    {
                        VF_CHECK(false, hist << ": after create_or_load the library can no longer be loaded: " << ex.what());
                    }
                }
                ctx.label("create_or_load:load");
                ++reopens;
                // the history ends here for this variant (the model's handles are gone)
                break;
            }
            w = reopen(std::move(w), dir, loaded);
            ++reopens;
            VF_CHECK(loaded == schema, hist << ": load_database reports schema " << sname(loaded) << ", the library was created as " << sname(schema));
            VF_CHECK(e::database_exists(dir), hist << ": database_exists() is false for an existing library");
            std::string after = observe(w->db, w->v2);
            VF_CHECK(before == after, hist << ": observation differs after reopening: " << first_diff_line(before, after));
        }
    }
    if (reopens >= 2)
        ctx.label("reopen>=2");
    ctx.describe = w ? w->hist : "schema " + sname(schema) + " (closed)";
    ctx.key = ctx.describe + std::to_string(reopens);
    ctx.nontrivial = rich;
}

// ------------------------------------------------------------------------------------------------------ C11
inline void prop_c11(const vf::Case& c, Ctx& ctx)
{
    S h(c[0]);
    auto schema = pick_schema(h, ctx);
    ScratchDir sd;
    std::string dir = sd.lib();
    auto w = std::make_unique<World>(schema, e::create_database(dir, schema));
    w->hist = "schema " + sname(schema) + " on disk";
    check_stored(*w, dir, w->hist + " [fresh]");
    if (h.coin())
        prelude(*w, h, ctx);
    if (h.coin())
        prelude_deep(*w, h, ctx);
    bool nt = false;
    for (size_t r = 1; r < c.size(); ++r)
    {
        S s(c[r]);
        history_step(*w, s, ctx);
        check_stored(*w, dir, w->hist);
        check_forest(*w, w->hist);
        nt = nt || w->structural_on_nonleaf;
    }
    for (auto& l : ctx.labels)
        if (l == "set_relative_path")
            nt = true;
    ctx.describe = w->hist;
    ctx.key = w->hist;
    ctx.nontrivial = nt;
}

// ------------------------------------------------------------------------------------------------------ C16
inline std::string file_digest(const std::string& path)
{
    std::ifstream f(path, std::ios::binary);
    std::stringstream ss;
    ss << f.rdbuf();
    std::string s = ss.str();
    return std::to_string(s.size()) + ":" + std::to_string(vf::fnv1a(s));
}
inline std::string dir_digest(const std::string& dir, bool v2)
{
    std::string o;
    std::vector<std::string> names;
    std::string base = v2 ? dir + "/Database2" : dir;
    if (fs::exists(base))
        for (auto& e : fs::directory_iterator(base))
            if (e.is_regular_file())
                names.push_back(e.path().filename().string());
    std::sort(names.begin(), names.end());
    for (auto& n : names)
        o += n + "=" + file_digest(base + "/" + n) + " ";
    return o;
}
inline void prop_c16(const vf::Case& c, Ctx& ctx)
{
    S h(c[0]);
    auto schema = pick_schema(h, ctx);
    bool on_disk = h.below(3) != 0;
    ScratchDir sd;
    std::string dir = sd.lib();
    auto w = std::make_unique<World>(schema, on_disk ? e::create_database(dir, schema) : e::create_temporary_database(schema));
    w->hist = "schema " + sname(schema) + (on_disk ? " on disk" : " in memory");
    ctx.label(on_disk ? "on-disk" : "in-memory");
    if (h.coin())
        prelude(*w, h, ctx);
    if (h.coin())
        prelude_deep(*w, h, ctx);
    for (size_t r = 1; r < c.size(); ++r)
    {
        S s(c[r]);
        history_step(*w, s, ctx);
    }
    if (h.below(3) == 0 && !w->live_tracks().empty())
    {
        // values the setters accept although they are outside the nominal domain (non-finite doubles): states reachable through the API,
        // in which "unchanged" can no longer be decided by comparing values with == inside the library
        dj::track t = w->tracks[w->live_tracks()[h.below(w->live_tracks().size())]].handle;
        double nan = std::numeric_limits<double>::quiet_NaN(), inf = std::numeric_limits<double>::infinity();
        int stored = 0;
        auto attempt = [&](auto&& fn) {
            try
            {
                fn();
                ++stored;
            }
            catch (const std::exception&)
            {
            }
        };
        unsigned which = static_cast<unsigned>(h.below(64));
        if (which & 1)
            attempt([&] { t.set_average_loudness(nan); });
        if (which & 2)
            attempt([&] { t.set_main_cue(nan); });
        if (which & 4)
            attempt([&] { t.set_hot_cue_at(3, dj::hot_cue{"nan", nan, e::standard_pad_colors::pad_2}); });
        if (which & 8)
            attempt([&] { t.set_loop_at(1, dj::loop{"inf", 0.0, inf, e::standard_pad_colors::pad_3}); });
        if (which & 16)
            attempt([&] { t.set_bpm(nan); });
        if (which & 32)
            attempt([&] { t.set_beatgrid({{0, 0.0}, {8, nan}}); });
        if (stored)
        {
            w->hist += " | " + std::to_string(stored) + " non-finite value(s) stored in track " + std::to_string(t.id());
            ctx.label("non-finite-values-stored");
        }
    }
    bool rich = rich_state(*w);
    // ---- observation phase: every observer twice; no write statement, no change counter movement, same answers
    auto& sh = vfshim::state();
    sh.record_sql = true;
    vfshim::reset_counters();
    sqlite3* conn = nullptr;
    std::string o1 = observe(w->db, w->v2);
    conn = sh.last_db;
    int changes0 = conn ? sqlite3_total_changes(conn) : 0;
    try
    {
        w->db.verify();
    }
    catch (const std::exception& ex)
    {
        VF_CHECK(false, w->hist << ": verify() fails on a library built through the API: " << ex.what());
    }
    (void)w->db.directory();
    std::string o2 = observe(w->db, w->v2);
    w->db.verify();
    uint64_t writes = sh.write_steps;
    std::string first_write = sh.write_sql.empty() ? "" : sh.write_sql[0];
    sh.record_sql = false;
    int changes1 = conn ? sqlite3_total_changes(conn) : 0;
    VF_CHECK(writes == 0, w->hist << ": observing the library executed " << writes << " modifying statement(s), first: " << first_write.substr(0, 200));
    VF_CHECK(changes0 == changes1, w->hist << ": sqlite3_total_changes moved from " << changes0 << " to " << changes1 << " during observation");
    VF_CHECK(o1 == o2, w->hist << ": repeated observation gives a different answer: " << first_diff_line(o1, o2));
    if (on_disk)
    {
        std::string hist = w->hist;
        bool v2 = w->v2;
        w.reset();
        std::string d0 = dir_digest(dir, v2);
        VF_CHECK(e::database_exists(dir), hist << ": database_exists() false");
        std::string d1 = dir_digest(dir, v2);
        VF_CHECK(d0 == d1, hist << ": database_exists() changed the stored files: " << d0 << " -> " << d1);
        {
            e::engine_schema loaded{};
            dj::database db = e::load_database(dir, loaded);
            std::string o3 = observe(db, v2);
            db.verify();
            VF_CHECK(o3 == o1, hist << ": observation after loading differs: " << first_diff_line(o1, o3));
        }
        std::string d2 = dir_digest(dir, v2);
        VF_CHECK(d0 == d2, hist << ": loading and observing the library changed the stored files: " << d0 << " -> " << d2);
        ctx.label("files-compared");
    }
    ctx.describe = (w ? w->hist : std::string("schema ") + sname(schema) + " on disk (closed)");
    ctx.key = ctx.describe;
    ctx.nontrivial = rich;
}

// ------------------------------------------------------------------------------------------------------ C15
// hostile arguments on every public operation; the only oracle is "returns or throws std::exception" (+ sanitizers, watchdog)
template <class F>
void hostile_call(World& w, const std::string& what, F f)
{
    w.hist += " | " + what;
    try
    {
        f();
    }
    catch (const std::exception&)
    {
        w.hist += "!";
    }
    catch (...)
    {
        VF_CHECK(false, w.hist << ": threw something that is not derived from std::exception");
    }
}
inline void prop_c15(const vf::Case& c, Ctx& ctx)
{
    S h(c[0]);
    auto schema = pick_schema(h, ctx);
    World w(schema, e::create_temporary_database(schema));
    w.hist = "schema " + sname(schema);
    std::string fam = w.v2 ? "2.x:" : "1.x:";
    bool hostile_seen = false;
    if (h.below(4) != 0)
        prelude(w, h, ctx);
    for (size_t r = 1; r < c.size(); ++r)
    {
        S s(c[r]);
        auto lc = w.live_crates();
        auto lt = w.live_tracks();
        bool have = !lc.empty() && !lt.empty();
        int op = static_cast<int>(s.below(17));
        auto any_crate = [&]() -> CrateM* { return w.crates.empty() ? nullptr : &w.crates[s.below(w.crates.size())]; };  // live or removed
        auto live_crate = [&]() -> CrateM* { return lc.empty() ? nullptr : &w.crates[lc[s.below(lc.size())]]; };
        auto live_track = [&]() -> TrackM* { return lt.empty() ? nullptr : &w.tracks[lt[s.below(lt.size())]]; };
        switch (op)
        {
            case 0:
            case 1:
            case 2:
                try
                {
                    apply_crate_op(w, s, ctx, OPS_FOREST | OPS_AFTER | OPS_MEMBERS);
                }
                catch (const vf::Fail&)
                {
                    throw;
                }
                break;
            case 3:
            case 4:
                apply_track_op(w, s, ctx, true);
                ctx.label(fam + "hostile-snapshot");
                hostile_seen = hostile_seen || have;
                break;
            case 5:
            {  // cue / loop accessors with out-of-range indices
                TrackM* t = live_track();
                if (!t)
                    break;
                int idx = static_cast<int>(s.below(13)) - 2;  // -2..10
                if (s.below(8) == 0)
                    idx = s.coin() ? INT_MAX : INT_MIN;
                auto cue = gen_cue(s, ctx, true);
                auto lp = gen_loop(s, ctx, true);
                switch (s.below(4))
                {
                    case 0: hostile_call(w, "hot_cue_at(" + std::to_string(idx) + ")", [&] { (void)t->handle.hot_cue_at(idx); }); ctx.label(fam + "hot_cue_at(bad)"); break;
                    case 1: hostile_call(w, "set_hot_cue_at(" + std::to_string(idx) + ")", [&] { t->handle.set_hot_cue_at(idx, cue); }); ctx.label(fam + "set_hot_cue_at(bad)"); break;
                    case 2: hostile_call(w, "loop_at(" + std::to_string(idx) + ")", [&] { (void)t->handle.loop_at(idx); }); ctx.label(fam + "loop_at(bad)"); break;
                    default: hostile_call(w, "set_loop_at(" + std::to_string(idx) + ")", [&] { t->handle.set_loop_at(idx, lp); }); ctx.label(fam + "set_loop_at(bad)"); break;
                }
                hostile_seen = hostile_seen || (have && (idx < 0 || idx > 7));
                break;
            }
            case 6:
            {  // hostile setter values
                TrackM* t = live_track();
                if (!t)
                    break;
                switch (s.below(10))
                {
                    case 0: { auto v = gen_cues(s, ctx, true); hostile_call(w, "set_hot_cues#" + std::to_string(v.size()), [&] { t->handle.set_hot_cues(v); }); ctx.label(fam + "set_hot_cues(hostile)"); break; }
                    case 1: { auto v = gen_loops(s, ctx, true); hostile_call(w, "set_loops#" + std::to_string(v.size()), [&] { t->handle.set_loops(v); }); ctx.label(fam + "set_loops(hostile)"); break; }
                    case 2: { auto v = gen_sample_rate(s, ctx, true); hostile_call(w, "set_sample_rate " + rdbl(v), [&] { t->handle.set_sample_rate(v); }); ctx.label(fam + "set_sample_rate(hostile)"); break; }
                    case 3: { auto v = gen_bpm(s, ctx, true); hostile_call(w, "set_bpm " + rdbl(v), [&] { t->handle.set_bpm(v); }); ctx.label(fam + "set_bpm(hostile)"); break; }
                    case 4: { auto v = gen_grid(s, ctx, true); hostile_call(w, "set_beatgrid#" + std::to_string(v.size()), [&] { t->handle.set_beatgrid(v); }); ctx.label(fam + "set_beatgrid(hostile)"); break; }
                    case 5: { auto v = gen_duration(s, true); hostile_call(w, "set_duration " + rdur(v), [&] { t->handle.set_duration(v); }); ctx.label(fam + "set_duration(hostile)"); break; }
                    case 6: { auto v = gen_time(s, true); hostile_call(w, "set_last_played_at " + rtime(v), [&] { t->handle.set_last_played_at(v); }); ctx.label(fam + "set_last_played_at(hostile)"); break; }
                    case 7: { auto v = gen_sample_count(s, ctx); hostile_call(w, "set_sample_count " + rint(v), [&] { t->handle.set_sample_count(v); }); ctx.label(fam + "set_sample_count(hostile)"); break; }
                    case 8: { auto v = gen_text(s, ctx, true); hostile_call(w, "set_title long", [&] { t->handle.set_title(v); }); break; }
                    default:
                    {
                        std::string p = s.coin() ? std::string("") : (s.coin() ? std::string("noext") : std::string("a/b/.hidden"));
                        hostile_call(w, "set_relative_path " + hexs(p), [&] { t->handle.set_relative_path(p); });
                        ctx.label(fam + "set_relative_path(hostile)");
                        break;
                    }
                }
                hostile_seen = hostile_seen || have;
                break;
            }
            case 7:
            {  // ids of nonexistent entities
                int64_t id = s.coin() ? static_cast<int64_t>(s.below(50)) : (s.coin() ? -1 : (s.coin() ? INT64_MAX : INT64_MIN));
                switch (s.below(3))
                {
                    case 0: hostile_call(w, "crate_by_id(" + std::to_string(id) + ")", [&] { (void)w.db.crate_by_id(id); }); ctx.label(fam + "crate_by_id(any)"); break;
                    case 1: hostile_call(w, "track_by_id(" + std::to_string(id) + ")", [&] { (void)w.db.track_by_id(id); }); ctx.label(fam + "track_by_id(any)"); break;
                    default:
                    {
                        CrateM* cr = live_crate();
                        if (!cr)
                            break;
                        bool exists = false;
                        for (auto& t : w.tracks)
                            exists = exists || (t.live && t.id == id);
                        if (!exists && s.coin())
                            for (auto& t : w.tracks)
                                if (t.live && !w.members.count({cr->id, t.id}))
                                {
                                    // so that the foreign entry gets a predecessor in the crate's list
                                    int64_t tid = t.id;
                                    hostile_call(w, "add_track(" + std::to_string(cr->id) + ", live id " + std::to_string(tid) + ")", [&] {
                                        cr->handle.add_track(tid);
                                        if (w.members.insert({cr->id, tid}).second)
                                            w.entries[cr->id].push_back(tid);
                                    });
                                    break;
                                }
                        hostile_call(w, "add_track(" + std::to_string(cr->id) + ", id " + std::to_string(id) + ")", [&] {
                            cr->handle.add_track(id);
                            if (exists && w.members.insert({cr->id, id}).second)
                                w.entries[cr->id].push_back(id);
                        });
                        ctx.label(fam + "add_track(nonexistent id)");
                        // whatever happened, the crate listing must stay usable
                        hostile_call(w, "tracks()", [&] { for (auto& t : cr->handle.tracks()) (void)t.is_valid(); });
                        if (!exists && s.coin())
                        {
                            // take the single foreign entry out again through the handle the listing returned (first, middle or last
                            // position, whatever the crate held before), list again, append to the list, list again
                            hostile_call(w, "remove_track(listed handle of id " + std::to_string(id) + ")", [&] {
                                for (auto& t : cr->handle.tracks())
                                    if (t.id() == id)
                                        cr->handle.remove_track(t);
                            });
                            hostile_call(w, "tracks()", [&] { for (auto& t : cr->handle.tracks()) (void)t.is_valid(); });
                            hostile_call(w, "add_track(id again)", [&] { cr->handle.add_track(id); });
                            hostile_call(w, "tracks()", [&] { for (auto& t : cr->handle.tracks()) (void)t.is_valid(); });
                            ctx.label(fam + "remove_track(nonexistent id entry)");
                        }
                        if (!exists)
                            hostile_call(w, "clear_tracks()", [&] { cr->handle.clear_tracks(); for (auto it = w.members.begin(); it != w.members.end();) it = it->first == cr->id ? w.members.erase(it) : std::next(it); w.entries[cr->id].clear(); });
                        break;
                    }
                }
                hostile_seen = hostile_seen || have;
                break;
            }
            case 8:
            {  // crates from elsewhere in the tree as `after`
                CrateM* p = live_crate();
                CrateM* a = live_crate();
                if (!p || !a)
                    break;
                std::string name = "h" + std::to_string(++w.serial);
                bool ok_after = a->parent == p->id;
                bool root_after = a->parent == 0;
                if (s.coin())
                {
                    w.hist += " | create_sub_crate_after(" + std::to_string(p->id) + ", after " + std::to_string(a->id) + ")";
                    try
                    {
                        dj::crate cr = p->handle.create_sub_crate_after(name, a->handle);
                        adopt_new_crate(w, ctx, cr, name, p->id, (ok_after && w.v2) ? a->id : 0, w.hist);
                    }
                    catch (const vf::Fail&)
                    {
                        throw;
                    }
                    catch (const std::exception&)
                    {
                        w.hist += "!";
                    }
                    ctx.label(fam + "create_sub_crate_after(foreign)");
                }
                else
                {
                    w.hist += " | create_root_crate_after(after " + std::to_string(a->id) + ")";
                    try
                    {
                        dj::crate cr = w.db.create_root_crate_after(name, a->handle);
                        adopt_new_crate(w, ctx, cr, name, 0, (root_after && w.v2) ? a->id : 0, w.hist);
                    }
                    catch (const vf::Fail&)
                    {
                        throw;
                    }
                    catch (const std::exception&)
                    {
                        w.hist += "!";
                    }
                    ctx.label(fam + "create_root_crate_after(foreign)");
                }
                hostile_seen = hostile_seen || (have && !ok_after);
                break;
            }
            case 9:
            {  // removed handles: only copy, assign, destroy, id(), is_valid()
                CrateM* cm = any_crate();
                if (cm && !cm->live)
                {
                    dj::crate copy = cm->handle;
                    dj::crate other = copy;
                    other = cm->handle;
                    (void)copy.id();
                    bool reissued = w.by_id(cm->id) != nullptr;
                    bool v = copy.is_valid();
                    VF_CHECK(reissued || !v, w.hist << ": handle of removed crate " << cm->id << " reports is_valid()");
                    ctx.label(fam + "removed-crate-handle");
                }
                if (!w.tracks.empty())
                {
                    TrackM& tm = w.tracks[s.below(w.tracks.size())];
                    if (!tm.live)
                    {
                        dj::track copy = tm.handle;
                        dj::track other = copy;
                        other = tm.handle;
                        (void)copy.id();
                        bool reissued = false;
                        for (auto& u : w.tracks)
                            reissued = reissued || (u.live && u.id == tm.id);
                        bool v = copy.is_valid();
                        VF_CHECK(reissued || !v, w.hist << ": handle of removed track " << tm.id << " reports is_valid()");
                        ctx.label(fam + "removed-track-handle");
                    }
                }
                break;
            }
            case 10:
            {  // odd names
                std::string name;
                switch (s.below(5))
                {
                    case 0: name = ""; break;
                    case 1: name = std::string(1 + s.below(3), ';'); break;
                    case 2: name = std::string(5000, 'n'); break;
                    case 3: name = "a;b"; break;
                    default: name = std::string("nul\0byte", 8); break;
                }
                CrateM* cr = live_crate();
                bool valid = valid_crate_name(name) && name.find('\0') == std::string::npos;
                if (cr && s.coin())
                {
                    w.hist += " | set_name(" + std::to_string(cr->id) + ", odd " + std::to_string(name.size()) + "B)";
                    try
                    {
                        cr->handle.set_name(name);
                        if (valid)
                            cr->name = name;
                        else
                            cr->name = cr->handle.name();  // the model follows; C07 judges validity
                    }
                    catch (const vf::Fail&)
                    {
                        throw;
                    }
                    catch (const std::exception&)
                    {
                        w.hist += "!";
                    }
                    ctx.label(fam + "set_name(odd)");
                }
                else
                {
                    w.hist += " | create_root_crate(odd " + std::to_string(name.size()) + "B)";
                    try
                    {
                        dj::crate ncr = w.db.create_root_crate(name);
                        adopt_new_crate(w, ctx, ncr, ncr.name(), 0, 0, w.hist);
                    }
                    catch (const vf::Fail&)
                    {
                        throw;
                    }
                    catch (const std::exception&)
                    {
                        w.hist += "!";
                    }
                    ctx.label(fam + "create_root_crate(odd)");
                }
                hostile_seen = hostile_seen || have;
                break;
            }
            case 11:
            {  // lookups with odd strings
                std::string n = s.coin() ? std::string("") : std::string(300, '%');
                hostile_call(w, "lookups(odd)", [&] {
                    (void)w.db.crates_by_name(n);
                    (void)w.db.root_crate_by_name(n);
                    (void)w.db.tracks_by_relative_path(n);
                    for (auto i : lc)
                        (void)w.crates[i].handle.sub_crate_by_name(n);
                });
                ctx.label(fam + "lookups(odd)");
                break;
            }
            case 12:
            {  // observers on everything live
                hostile_call(w, "observe", [&] { (void)observe(w.db, w.v2); });
                break;
            }
            case 16:
            {  // cycle probe: a crate with descendants is (sometimes) moved legally first, then re-parented under one of its descendants
                std::vector<CrateM*> cand;
                for (auto i : lc)
                    if (!w.subtree(w.crates[i].id).empty())
                        cand.push_back(&w.crates[i]);
                if (cand.empty())
                    break;
                CrateM* m = cand[s.below(cand.size())];
                if (s.coin())
                {
                    w.hist += " | set_parent(" + std::to_string(m->id) + " -> none)";
                    try
                    {
                        m->handle.set_parent(std::nullopt);
                        if (m->parent != 0)
                        {
                            erase_from(w.order[m->parent], m->id);
                            m->parent = 0;
                            w.order[0].push_back(m->id);
                        }
                    }
                    catch (const std::exception&)
                    {
                        w.hist += "!";  // e.g. a root crate of that name exists already
                    }
                }
                auto sub = w.subtree(m->id);
                auto it = sub.begin();
                std::advance(it, s.below(sub.size()));
                CrateM* d = w.by_id(*it);
                w.hist += " | set_parent(" + std::to_string(m->id) + " -> descendant " + std::to_string(d->id) + ")";
                bool threw = false;
                try
                {
                    m->handle.set_parent(d->handle);
                }
                catch (const std::exception&)
                {
                    threw = true;
                }
                VF_CHECK(threw, w.hist << ": re-parenting a crate under its own descendant was accepted");
                ctx.label(fam + "set_parent(descendant)");
                hostile_seen = hostile_seen || have;
                break;
            }
            case 13:
            {  // numeric helpers with extreme arguments
                unsigned long long cnt = s.coin() ? ~0ull : s.raw();
                double rate = s.coin() ? 1e300 : (s.coin() ? -1.0 : (s.coin() ? std::nan("") : 4.9e-324));
                hostile_call(w, "extents", [&] {
                    (void)e::calculate_overview_waveform_extents(cnt, rate);
                    (void)e::calculate_high_resolution_waveform_extents(cnt, rate);
                });
                auto g = gen_grid(s, ctx, true);
                int64_t sc = s.coin() ? static_cast<int64_t>(s.raw()) : static_cast<int64_t>(s.below(1ull << 40));
                hostile_call(w, "normalize_beatgrid", [&] { (void)e::normalize_beatgrid(g, sc); });
                ctx.label("helpers(extreme)");
                break;
            }
            default:
                try
                {
                    apply_crate_op(w, s, ctx, OPS_FOREST | OPS_MEMBERS);
                }
                catch (const vf::Fail&)
                {
                    throw;
                }
                break;
        }
    }
    ctx.describe = w.hist;
    ctx.key = w.hist;
    ctx.nontrivial = hostile_seen;
}
}  // namespace api

// ------------------------------------------------------------------------------------------------------ C14
// A failed mutating call leaves no partial update: one mutator x every fault position.
namespace api
{
inline const std::vector<std::string>& mutators()
{
    static std::vector<std::string> v = [] {
        std::vector<std::string> m = {"create_track", "update", "remove_track"};
        for (auto& s : setters())
            m.push_back(std::string("set_") + s.name);
        for (const char* n : {"create_root_crate", "create_sub_crate", "create_root_crate_after", "create_sub_crate_after", "set_name", "set_parent",
                              "add_track(track)", "add_track(id)", "crate::remove_track", "clear_tracks", "remove_crate"})
            m.push_back(n);
        return m;
    }();
    return v;
}

// deterministic prior state: 2 tracks with performance data, crates A > C, B; memberships; then `extra` generated operations
inline std::unique_ptr<World> build_c14_state(e::engine_schema schema, const vf::Case& c, size_t first_rec, size_t n_extra)
{
    auto w = std::make_unique<World>(schema, e::create_temporary_database(schema));
    Ctx scratch;
    for (int i = 0; i < 2; ++i)
    {
        dj::track_snapshot s;
        s.relative_path = "state/track" + std::to_string(i) + ".mp3";
        s.title = "T" + std::to_string(i);
        s.artist = "Artist";
        s.bpm = 120.0 + i;
        s.sample_rate = 44100;
        s.sample_count = 44100ull * 8 * (i + 1);
        s.duration = std::chrono::milliseconds{8000 * (i + 1)};
        s.key = dj::musical_key::a_minor;
        s.rating = 40;
        s.average_loudness = 0.5;
        s.main_cue = 1000.0;
        s.beatgrid = {{-4, -100.0}, {40, 882000.0}};
        s.hot_cues = {dj::hot_cue{"cue", 5000.0, e::standard_pad_colors::pad_1}, std::nullopt, dj::hot_cue{"two", 9000.5, e::standard_pad_colors::pad_3}};
        s.loops = {std::nullopt, dj::loop{"loop", 1000.0, 2000.0, e::standard_pad_colors::pad_2}};
        s.waveform.resize(e::calculate_high_resolution_waveform_extents(*s.sample_count, *s.sample_rate).size);
        for (size_t k = 0; k < s.waveform.size(); ++k)
            s.waveform[k].low.value = static_cast<uint8_t>(k);
        dj::track t = w->db.create_track(s);
        w->issued_track_ids.insert(t.id());
        w->tracks.push_back(TrackM{t, t.id(), true});
    }
    auto a = w->db.create_root_crate("A");
    adopt_new_crate(*w, scratch, a, "A", 0, 0, "state");
    auto b = w->db.create_root_crate("B");
    adopt_new_crate(*w, scratch, b, "B", 0, 0, "state");
    auto cc = a.create_sub_crate("C");
    adopt_new_crate(*w, scratch, cc, "C", a.id(), 0, "state");
    auto add = [&](dj::crate& cr, size_t ti) {
        cr.add_track(w->tracks[ti].handle);
        w->members.insert({cr.id(), w->tracks[ti].id});
        w->entries[cr.id()].push_back(w->tracks[ti].id);
    };
    add(a, 0);
    add(cc, 0);
    add(cc, 1);
    for (size_t i = 0; i < n_extra && first_rec + i < c.size(); ++i)
    {
        S s(c[first_rec + i]);
        try
        {
            history_step(*w, s, scratch);
        }
        catch (const vf::Fail&)
        {
            // value-level judgement of the prior history is C07/C08's job, not this property's
        }
    }
    return w;
}

// performs ONE public mutating call; arguments are a pure function of (state, record). Returns a description.
inline std::string do_mutation(World& w, size_t m, S s, bool& threw)
{
    threw = false;
    Ctx scratch;
    auto lc = w.live_crates();
    auto lt = w.live_tracks();
    const std::string& name = mutators()[m];
    std::string desc = name;
    auto guard = [&](auto&& fn) {
        try
        {
            vfshim::CallScope in_library_call;
            fn();
        }
        catch (const std::exception& ex)
        {
            threw = true;
            desc += " -> threw " + std::string(ex.what()).substr(0, 100);
        }
    };
    if (lt.empty() || lc.empty())
        return desc + " (no entities)";
    TrackM& t = w.tracks[lt[s.below(lt.size())]];
    CrateM& c = w.crates[lc[s.below(lc.size())]];
    if (name == "create_track" || name == "update")
    {
        dj::track_snapshot snap;
        snap.relative_path = "fault/new-" + std::to_string(s.below(1000)) + ".flac";
        snap.title = "New";
        snap.genre = "G";
        snap.bpm = 99.5;
        snap.sample_rate = 48000;
        snap.sample_count = 48000ull * 30;
        snap.year = 1999;
        snap.rating = 80;
        snap.key = dj::musical_key::c_major;
        snap.last_played_at = std::chrono::system_clock::time_point{std::chrono::seconds{1600000000}};
        snap.hot_cues = {std::nullopt, dj::hot_cue{"x", 10.0, e::standard_pad_colors::pad_4}};
        snap.loops = {dj::loop{"l", 5.0, 50.0, e::standard_pad_colors::pad_5}};
        snap.beatgrid = {{0, 0.0}, {64, 1440000.0}};
        snap.waveform.resize(s.coin() ? 0 : 100);
        if (name == "create_track")
            guard([&] { (void)w.db.create_track(snap); });
        else
            guard([&] { t.handle.update(snap); });
        return desc;
    }
    if (name == "remove_track")
    {
        desc += "(" + std::to_string(t.id) + ")";
        guard([&] { w.db.remove_track(t.handle); });
        return desc;
    }
    if (name.rfind("set_", 0) == 0 && name != "set_name" && name != "set_parent")
    {
        size_t k = m - 3;
        TrackModel tm{t.handle, dj::track_snapshot{}, ""};
        tm.given = t.handle.snapshot();
        bool th = false;
        desc = "t" + std::to_string(t.id) + ".set_" + apply_setter(k, s, scratch, w.schema, tm, th, 7000 + static_cast<int>(s.below(100)));
        threw = th;
        return desc;
    }
    std::string fresh = "F" + std::to_string(s.below(100000));
    if (name == "create_root_crate")
        guard([&] { (void)w.db.create_root_crate(fresh); });
    else if (name == "create_sub_crate")
        guard([&] { (void)c.handle.create_sub_crate(fresh); });
    else if (name == "create_root_crate_after")
    {
        CrateM* root = nullptr;
        for (auto i : lc)
            if (w.crates[i].parent == 0)
                root = &w.crates[i];
        if (!root)
            return desc + " (no root)";
        guard([&] { (void)w.db.create_root_crate_after(fresh, root->handle); });
    }
    else if (name == "create_sub_crate_after")
    {
        CrateM* kid = nullptr;
        for (auto i : lc)
            if (w.crates[i].parent != 0)
                kid = &w.crates[i];
        if (!kid)
            return desc + " (no child)";
        CrateM* par = w.by_id(kid->parent);
        guard([&] { (void)par->handle.create_sub_crate_after(fresh, kid->handle); });
    }
    else if (name == "set_name")
    {
        desc += "(" + std::to_string(c.id) + ")";
        guard([&] { c.handle.set_name(fresh); });
    }
    else if (name == "set_parent")
    {
        // a legal target: none, or a crate that is neither c nor one of its descendants
        auto st = w.subtree(c.id);
        std::vector<CrateM*> ok;
        for (auto i : lc)
            if (w.crates[i].id != c.id && !st.count(w.crates[i].id) && w.crates[i].id != c.parent)
                ok.push_back(&w.crates[i]);
        CrateM* target = (ok.empty() || (c.parent != 0 && s.below(3) == 0)) ? nullptr : ok[s.below(ok.size())];
        if (!target && c.parent == 0)
            return desc + " (nothing to move)";
        desc += "(" + std::to_string(c.id) + " -> " + (target ? std::to_string(target->id) : std::string("none")) + ")";
        guard([&] { target ? c.handle.set_parent(target->handle) : c.handle.set_parent(std::nullopt); });
    }
    else if (name == "add_track(track)" || name == "add_track(id)")
    {
        // prefer a non-member so that something is written
        for (auto i : lc)
            for (auto j : lt)
                if (!w.members.count({w.crates[i].id, w.tracks[j].id}))
                {
                    desc += "(" + std::to_string(w.crates[i].id) + "," + std::to_string(w.tracks[j].id) + ")";
                    if (name == "add_track(id)")
                        guard([&] { w.crates[i].handle.add_track(w.tracks[j].id); });
                    else
                        guard([&] { w.crates[i].handle.add_track(w.tracks[j].handle); });
                    return desc;
                }
        guard([&] { c.handle.add_track(t.handle); });
    }
    else if (name == "crate::remove_track")
    {
        if (w.members.empty())
            return desc + " (no members)";
        auto it = w.members.begin();
        std::advance(it, s.below(w.members.size()));
        CrateM* cr = w.by_id(it->first);
        TrackM* tr = nullptr;
        for (auto& x : w.tracks)
            if (x.live && x.id == it->second)
                tr = &x;
        if (!cr || !tr)
            return desc + " (stale member)";
        desc += "(" + std::to_string(cr->id) + "," + std::to_string(tr->id) + ")";
        guard([&] { cr->handle.remove_track(tr->handle); });
    }
    else if (name == "clear_tracks")
    {
        CrateM* cr = &c;
        for (auto& mm : w.members)
            if (CrateM* x = w.by_id(mm.first))
                cr = x;
        desc += "(" + std::to_string(cr->id) + ")";
        guard([&] { cr->handle.clear_tracks(); });
    }
    else if (name == "remove_crate")
    {
        CrateM* cr = &c;
        for (auto i : lc)
            if (!w.subtree(w.crates[i].id).empty() && s.coin())
                cr = &w.crates[i];
        desc += "(" + std::to_string(cr->id) + ")";
        guard([&] { w.db.remove_crate(cr->handle); });
    }
    return desc;
}

inline void prop_c14(const vf::Case& c, Ctx& ctx)
{
    S h(c[0]);
    auto schema = pick_schema(h, ctx);
    size_t m = h.below(mutators().size());
    size_t n_extra = h.below(5);
    bool v2 = is_v2(schema);
    std::string fam = v2 ? "2.x:" : "1.x:";
    const std::string& mname = mutators()[m];
    ctx.label(fam + mname);
    if (ctx.exclude("c14:" + fam + mname))
        return;
    size_t op_rec = c.size() - 1;
    auto& sh = vfshim::state();
    vfshim::disarm();
    // ---- dry run: does the operation succeed, and how many fault points does it have?
    uint64_t W = 0, R = 0;
    std::string desc;
    {
        auto w = build_c14_state(schema, c, 1, std::min(n_extra, op_rec > 1 ? op_rec - 1 : 0));
        bool threw = false;
        vfshim::reset_counters();
        desc = do_mutation(*w, m, S(c[op_rec]), threw);
        W = sh.fault_points;
        R = sh.read_points;
        ctx.describe = "schema " + sname(schema) + " " + w->hist + " || " + desc + " [W=" + std::to_string(W) + "]";
        ctx.key = ctx.describe;
        if (threw || desc.find("(no") != std::string::npos || desc.find("(nothing") != std::string::npos || desc.find("(stale") != std::string::npos)
        {
            ctx.label("op-not-applicable");
            return;
        }
    }
    if (W == 0)
    {
        ctx.label("W=0");
        return;
    }
    if (W >= 2)
        ctx.label("W>=2");
    ctx.nontrivial = W >= 2;
    for (uint64_t k = 1; k <= W; ++k)
    {
        auto w = build_c14_state(schema, c, 1, std::min(n_extra, op_rec > 1 ? op_rec - 1 : 0));
        std::string before = observe(w->db, w->v2);
        std::string raw_before = sh.last_db ? raw_tables(sh.last_db) : std::string();
        sqlite3* conn_before = sh.last_db;
        bool threw = false;
        vfshim::arm(k);
        std::string d2 = do_mutation(*w, m, S(c[op_rec]), threw);
        bool fired = sh.fired;
        vfshim::disarm();
        std::string where = std::string(v2 ? "2.x " : "1.x ") + mname + " leaves a partial update or an unusable library: " + ctx.describe + " fault at statement " +
                            std::to_string(k) + "/" + std::to_string(W);
        VF_CHECK(fired, where << ": the fault position was not reached (operation is not deterministic?)");
        VF_CHECK(threw, where << ": the call did not report the failed statement");
        sqlite3* conn = sh.last_db;
        std::string after = observe(w->db, w->v2);
        VF_CHECK(before == after, where << ": observable state changed although the call failed: " << first_diff_line(before, after));
        VF_CHECK(!conn || sqlite3_get_autocommit(conn) != 0, where << ": a transaction was left open");
        // the stored tables themselves (rows no accessor shows: bookkeeping rows of the crate encodings, change log, sequence counters)
        if (conn && conn == conn_before)
        {
            std::string raw_after = raw_tables(conn);
            VF_CHECK(raw_before == raw_after, where << ": the stored tables changed although the call failed: " << first_diff_line(raw_before, raw_after));
            ctx.label("raw-tables-compared");
        }
        // the library stays usable: the same operation now succeeds
        bool threw2 = false;
        std::string d3 = do_mutation(*w, m, S(c[op_rec]), threw2);
        VF_CHECK(!threw2, where << ": after the failed call the same operation no longer succeeds: " << d3);
        VF_CHECK(!conn || sqlite3_get_autocommit(conn) != 0, where << ": a transaction was left open after the retry");
        if (k >= 2)
            ctx.label("k>=2");
    }
    // ---- second fault class: the statements the call only READS with (SELECT rows, BEGIN, PRAGMA). "If any SQL statement issued by a
    // public mutating call fails": a read that fails after the call has already written must not leave that write behind either.
    for (uint64_t k = 1; k <= R && k <= 40; ++k)
    {
        auto w = build_c14_state(schema, c, 1, std::min(n_extra, op_rec > 1 ? op_rec - 1 : 0));
        std::string before = observe(w->db, w->v2);
        std::string raw_before = sh.last_db ? raw_tables(sh.last_db) : std::string();
        sqlite3* conn_before = sh.last_db;
        bool threw = false;
        vfshim::arm(k, true);
        std::string d2 = do_mutation(*w, m, S(c[op_rec]), threw);
        bool fired = sh.fired;
        vfshim::disarm();
        std::string where = std::string(v2 ? "2.x " : "1.x ") + mname + " leaves a partial update or an unusable library: " + ctx.describe + " fault at READ statement " +
                            std::to_string(k) + "/" + std::to_string(R);
        VF_CHECK(fired, where << ": the fault position was not reached (operation is not deterministic?)");
        VF_CHECK(threw, where << ": the call did not report the failed statement");
        sqlite3* conn = sh.last_db;
        std::string after = observe(w->db, w->v2);
        VF_CHECK(before == after, where << ": observable state changed although the call failed: " << first_diff_line(before, after));
        VF_CHECK(!conn || sqlite3_get_autocommit(conn) != 0, where << ": a transaction was left open");
        if (conn && conn == conn_before)
        {
            std::string raw_after = raw_tables(conn);
            VF_CHECK(raw_before == raw_after, where << ": the stored tables changed although the call failed: " << first_diff_line(raw_before, raw_after));
        }
        bool threw2 = false;
        std::string d3 = do_mutation(*w, m, S(c[op_rec]), threw2);
        VF_CHECK(!threw2, where << ": after the failed call the same operation no longer succeeds: " << d3);
        ctx.label("read-fault");
    }
}
}  // namespace api
