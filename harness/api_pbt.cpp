// API-level properties on the unified djinterop API (san variant: g++ ASan+UBSan, _GLIBCXX_ASSERTIONS, asserts on).
#include "common/bigalloc.hpp"
#include "api_regress.hpp"

int main(int argc, char** argv)
{
    std::vector<vf::PropSpec> specs;
    auto add = [&](const char* id, vf::PropertyFn fn, int rmin, int rmax, int len, int wd = 60)
    {
        vf::PropSpec p;
        p.id = id;
        p.fn = fn;
        p.rec_min = rmin;
        p.rec_max = rmax;
        p.rec_len = len;
        p.watchdog_s = wd;
        specs.push_back(p);
    };
    add("C01", api::prop_c01, 3, 3, 260);
    add("C06", api::prop_c06, 4, 16, 260);
    add("C07", api::prop_c07, 2, 16, 12);
    add("C07.enum3", api::prop_c07_enum<3>, 1, 1, 1);
    specs.back().enum_total = api::c07_enum_total<3>();
    add("C07.enum2", api::prop_c07_enum<2>, 1, 1, 1);
    specs.back().enum_total = api::c07_enum_total<2>();
    add("C07.dfs4", api::prop_c07_dfs4, 1, 1, 1);
    specs.back().enum_total = api::c07_dfs_total(4, 3);
    add("C07.dfs5", api::prop_c07_dfs5, 1, 1, 1);
    specs.back().enum_total = api::c07_dfs_total(5, 3);
    add("C07.dfs4all", api::prop_c07_dfs4all, 1, 1, 1);
    specs.back().enum_total = api::c07_dfs_total(4, 18);
    add("C08", api::prop_c08, 3, 28, 12);
    add("C09", api::prop_c09, 3, 28, 12);
    add("C10", api::prop_c10, 3, 20, 260);
    add("C11", api::prop_c11, 3, 16, 260);
    add("C15", api::prop_c15, 3, 24, 260);
    add("C16", api::prop_c16, 3, 16, 260);
    add("C14", api::prop_c14, 2, 6, 260, 120);
    add("C02.e2e", api::prop_c02_e2e, 2, 2, 260);
    add("C04.api", api::prop_c04_api, 2, 2, 260);
    add("REG", api::prop_reg, 1, 1, 2, 120);
    return vf::pbt_main(argc, argv, specs);
}
