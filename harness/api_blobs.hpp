// API-level blob properties:
//   C02.e2e  blobs stored by create_track/update decode under refcodec to the content of the snapshot written
//   C04.api  with foreign blobs in a 2.x track row, each single-field setter leaves every other byte of the performance data alone
#pragma once
#include "api_persist.hpp"
#include "common/codec_values.hpp"

namespace api
{
using ref::sc;
using ref::st;
using ref::Toks;

inline std::vector<std::string> raw_blobs(sqlite3* conn, bool v2, int64_t id)
{
    std::string sql = v2 ? "SELECT trackData, overviewWaveFormData, beatData, quickCues, loops FROM Track WHERE id = " + std::to_string(id)
                         : "SELECT trackData, highResolutionWaveFormData, overviewWaveFormData, beatData, quickCues, loops FROM PerformanceData WHERE id = " + std::to_string(id);
    sqlite3_stmt* stmt = nullptr;
    std::vector<std::string> out;
    if (sqlite3_prepare_v2(conn, sql.c_str(), -1, &stmt, nullptr) != SQLITE_OK)
        throw vf::Fail(std::string("cannot read blob columns: ") + sqlite3_errmsg(conn));
    if (sqlite3_step(stmt) == SQLITE_ROW)
        for (int i = 0; i < sqlite3_column_count(stmt); ++i)
        {
            const void* p = sqlite3_column_blob(stmt, i);
            int n = sqlite3_column_bytes(stmt, i);
            out.emplace_back(static_cast<const char*>(p ? p : ""), static_cast<size_t>(n));
        }
    sqlite3_finalize(stmt);
    return out;
}
inline Toks decode_blob(int kind, const std::string& bytes, const std::string& what)
{
    ref::Bytes b(bytes.begin(), bytes.end());
    try
    {
        return ref::decode(kind, b);
    }
    catch (const ref::Malformed& m)
    {
        VF_CHECK(false, what << ": stored blob does not decode under the independent decoder: " << m.what());
    }
    return {};
}
inline void expect_toks(const Toks& want, const Toks& got, const std::string& what, const std::set<size_t>& ignore = {})
{
    VF_CHECK(want.size() == got.size(), what << ": " << got.size() << " layout tokens stored, expected " << want.size() << "\n   want " << cv::toks_str(want) << "\n   got  "
                                             << cv::toks_str(got));
    for (size_t i = 0; i < want.size(); ++i)
        if (!ignore.count(i))
            VF_CHECK(want[i] == got[i], what << ": token " << i << " differs\n   want " << cv::toks_str(want) << "\n   got  " << cv::toks_str(got));
}
inline void push_grid(Toks& t, const std::vector<dj::beatgrid_marker>& g)
{
    t.push_back(sc(g.size()));
    for (size_t i = 0; i < g.size(); ++i)
    {
        t.push_back(sc(ref::f2u(g[i].sample_offset)));
        t.push_back(sc(static_cast<uint64_t>(static_cast<int64_t>(g[i].index))));
        int64_t diff = i + 1 < g.size() ? static_cast<int64_t>(g[i + 1].index) - g[i].index : 0;
        t.push_back(sc(static_cast<uint64_t>(static_cast<int64_t>(static_cast<int32_t>(diff)))));
        t.push_back(sc(0));
    }
}
inline void push_cue(Toks& t, const std::optional<dj::hot_cue>& c)
{
    t.push_back(st(c ? c->label : std::string()));
    t.push_back(sc(ref::f2u(c ? c->sample_offset : -1.0)));
    t.push_back(sc(c ? c->color.a : 0));
    t.push_back(sc(c ? c->color.r : 0));
    t.push_back(sc(c ? c->color.g : 0));
    t.push_back(sc(c ? c->color.b : 0));
}
inline void push_loop(Toks& t, const std::optional<dj::loop>& c)
{
    t.push_back(st(c ? c->label : std::string()));
    t.push_back(sc(ref::f2u(c ? c->start_sample_offset : -1.0)));
    t.push_back(sc(ref::f2u(c ? c->end_sample_offset : -1.0)));
    t.push_back(sc(c ? 1 : 0));
    t.push_back(sc(c ? 1 : 0));
    t.push_back(sc(c ? c->color.a : 0));
    t.push_back(sc(c ? c->color.r : 0));
    t.push_back(sc(c ? c->color.g : 0));
    t.push_back(sc(c ? c->color.b : 0));
}

// ------------------------------------------------------------------------------------------------------ C02.e2e
inline void prop_c02_e2e(const vf::Case& c, Ctx& ctx)
{
    S h(c[0]);
    auto schema = pick_schema(h, ctx);
    bool v2 = is_v2(schema);
    bool update_mode = h.coin();
    GenOpts o;
    o.v2 = v2;
    o.serial = 1;
    S sa(c.size() > 1 ? c[1] : S::empty());
    dj::track_snapshot s = gen_snapshot(sa, ctx, o);
    if (s.hot_cues.size() > 8)
        s.hot_cues.resize(8);
    if (s.loops.size() > 8)
        s.loops.resize(8);
    ctx.describe = "schema " + sname(schema) + (update_mode ? " update " : " create ") + render(fields_of(s));
    ctx.key = ctx.describe;
    auto db = e::create_temporary_database(schema);
    std::optional<dj::track> tr;
    try
    {
        if (update_mode)
        {
            dj::track_snapshot m;
            m.relative_path = "stored/first.mp3";
            tr = db.create_track(m);
            tr->update(s);
            ctx.label("mode=update");
        }
        else
            tr = db.create_track(s);
    }
    catch (const std::exception&)
    {
        ctx.label("write-rejected");
        return;
    }
    ctx.label("write-accepted");
    sqlite3* conn = vfshim::state().last_db;
    VF_CHECK(conn != nullptr, "no connection seen by the shim");
    auto blobs = raw_blobs(conn, v2, tr->id());
    VF_CHECK(blobs.size() == (v2 ? 5u : 6u), "performance data row of the track not found");
    std::string w = "schema " + sname(schema) + (update_mode ? " (update)" : " (create)");
    double rate = s.sample_rate.value_or(0);
    unsigned long long count = s.sample_count.value_or(0);
    auto cues = pad8(s.hot_cues);
    auto loops = pad8(s.loops);
    double main_cue = s.main_cue.value_or(0);
    bool populated = !s.beatgrid.empty() || !s.waveform.empty();
    for (auto& x : cues)
        populated = populated || x.has_value();
    ctx.nontrivial = populated;
    Toks qc{sc(8)};
    for (auto& x : cues)
        push_cue(qc, x);
    qc.push_back(sc(ref::f2u(main_cue)));
    if (v2)
    {
        // track data
        Toks td{sc(ref::f2u(rate)), sc(static_cast<uint64_t>(static_cast<int64_t>(count))), sc(static_cast<uint64_t>(static_cast<int64_t>(s.key ? static_cast<int32_t>(*s.key) : 0))),
                sc(ref::f2u(s.average_loudness.value_or(0))), sc(ref::f2u(s.average_loudness.value_or(0))), sc(ref::f2u(s.average_loudness.value_or(0))), st("")};
        expect_toks(td, decode_blob(ref::V2_TRACK_DATA, blobs[0], w + " trackData"), w + " trackData");
        // overview waveform: 1024 points (or none) resampled at the documented mid-points, maximum point = per-band maximum
        auto ow = expected_waveform_v2(s.waveform, s.sample_count, s.sample_rate);
        Toks ov{sc(ow.size()), sc(ow.size()), sc(0)};
        uint8_t mx[3] = {0, 0, 0};
        for (auto& x : ow)
        {
            ov.push_back(sc(x.low.value));
            ov.push_back(sc(x.mid.value));
            ov.push_back(sc(x.high.value));
            mx[0] = std::max(mx[0], x.low.value);
            mx[1] = std::max(mx[1], x.mid.value);
            mx[2] = std::max(mx[2], x.high.value);
        }
        for (int i = 0; i < 3; ++i)
            ov.push_back(sc(mx[i]));
        ov.push_back(st(""));
        std::set<size_t> ign;
        if (ow.empty())
            ign.insert(2);  // samples-per-point of an empty waveform carries no information
        else
            ov[2] = sc(ref::f2u(e::calculate_overview_waveform_extents(count, rate).samples_per_entry));
        expect_toks(ov, decode_blob(ref::V2_OVERVIEW, blobs[1], w + " overviewWaveFormData"), w + " overviewWaveFormData", ign);
        // beat data: both grids equal, 9 zero tail bytes
        Toks bd{sc(ref::f2u(rate)), sc(ref::f2u(static_cast<double>(count))), sc(s.beatgrid.empty() ? 0 : 1)};
        push_grid(bd, s.beatgrid);
        push_grid(bd, s.beatgrid);
        bd.push_back(st(std::string(9, '\0')));
        expect_toks(bd, decode_blob(ref::V2_BEAT_DATA, blobs[2], w + " beatData"), w + " beatData");
        // quick cues
        qc.push_back(sc(1));
        qc.push_back(sc(ref::f2u(main_cue)));
        qc.push_back(st(""));
        expect_toks(qc, decode_blob(ref::V2_QUICK_CUES, blobs[3], w + " quickCues"), w + " quickCues");
        Toks lp{sc(8)};
        for (auto& x : loops)
            push_loop(lp, x);
        lp.push_back(st(""));
        expect_toks(lp, decode_blob(ref::V2_LOOPS, blobs[4], w + " loops"), w + " loops");
    }
    else
    {
        Toks td{sc(ref::f2u(rate)), sc(static_cast<uint64_t>(static_cast<int64_t>(count))), sc(ref::f2u(s.average_loudness.value_or(0))),
                sc(static_cast<uint64_t>(static_cast<int64_t>(s.key ? static_cast<int32_t>(*s.key) : 0)))};
        expect_toks(td, decode_blob(ref::V1_TRACK_DATA, blobs[0], w + " trackData"), w + " trackData");
        // high-resolution waveform as given, with the maximum entry appended
        Toks hr{sc(s.waveform.size()), sc(s.waveform.size()), sc(ref::f2u(e::calculate_high_resolution_waveform_extents(count, rate).samples_per_entry))};
        uint8_t mx[6] = {0, 0, 0, 0, 0, 0};
        for (auto& x : s.waveform)
        {
            uint8_t f[6] = {x.low.value, x.mid.value, x.high.value, x.low.opacity, x.mid.opacity, x.high.opacity};
            for (int i = 0; i < 6; ++i)
            {
                hr.push_back(sc(f[i]));
                mx[i] = std::max(mx[i], f[i]);
            }
        }
        for (int i = 0; i < 6; ++i)
            hr.push_back(sc(mx[i]));
        expect_toks(hr, decode_blob(ref::V1_HIGH_RES, blobs[1], w + " highResolutionWaveFormData"), w + " highResolutionWaveFormData");
        // overview: resampled to the overview extents when sample count and rate are known
        std::vector<dj::waveform_entry> ow;
        double spe = 0;
        if (s.sample_count && s.sample_rate)
        {
            auto ext = e::calculate_overview_waveform_extents(*s.sample_count, *s.sample_rate);
            spe = ext.samples_per_entry;
            if (!s.waveform.empty())
                for (unsigned long long i = 0; i < ext.size; ++i)
                    ow.push_back(s.waveform[s.waveform.size() * (2 * i + 1) / (2 * ext.size)]);
        }
        Toks ov{sc(ow.size()), sc(ow.size()), sc(ref::f2u(spe))};
        uint8_t m3[3] = {0, 0, 0};
        for (auto& x : ow)
        {
            uint8_t f[3] = {x.low.value, x.mid.value, x.high.value};
            for (int i = 0; i < 3; ++i)
            {
                ov.push_back(sc(f[i]));
                m3[i] = std::max(m3[i], f[i]);
            }
        }
        for (int i = 0; i < 3; ++i)
            ov.push_back(sc(m3[i]));
        expect_toks(ov, decode_blob(ref::V1_OVERVIEW, blobs[2], w + " overviewWaveFormData"), w + " overviewWaveFormData");
        Toks bd{sc(ref::f2u(rate)), sc(ref::f2u(static_cast<double>(count))), sc(1)};
        push_grid(bd, s.beatgrid);
        push_grid(bd, s.beatgrid);
        Toks got = decode_blob(ref::V1_BEAT_DATA, blobs[3], w + " beatData");
        VF_CHECK(!got.empty() && got.back().str, w << " beatData: no tail token");
        for (char ch : got.back().s)
            VF_CHECK(ch == 0, w << " beatData: non-zero trailing byte");
        got.back().s.clear();
        bd.push_back(st(""));
        expect_toks(bd, got, w + " beatData");
        qc.push_back(sc(0));  // adjusted == default -> not adjusted
        qc.push_back(sc(ref::f2u(main_cue)));
        expect_toks(qc, decode_blob(ref::V1_QUICK_CUES, blobs[4], w + " quickCues"), w + " quickCues");
        Toks lp{sc(8)};
        for (auto& x : loops)
            push_loop(lp, x);
        expect_toks(lp, decode_blob(ref::V1_LOOPS, blobs[5], w + " loops"), w + " loops");
    }
}

// ------------------------------------------------------------------------------------------------------ C04.api
struct SetterTouch
{
    const char* name;
    int blob;  // index into the 2.x blob list (0 trackData, 1 overview, 2 beatData, 3 quickCues, 4 loops), -1 = none
};
inline void prop_c04_api(const vf::Case& c, Ctx& ctx)
{
    S h(c[0]);
    auto schema = pick_schema(h, ctx, true);
    auto db = e::create_temporary_database(schema);
    dj::track_snapshot m;
    m.relative_path = "foreign/track.mp3";
    m.sample_rate = 44100;
    m.sample_count = 44100 * 60;
    dj::track tr = db.create_track(m);
    sqlite3* conn = vfshim::state().last_db;
    VF_CHECK(conn != nullptr, "no connection seen by the shim");
    // foreign blobs as Engine itself might write them: odd counts, flag bytes, trailing data, any zlib level
    S s(c.size() > 1 ? c[1] : S::empty());
    cv::GenOpts go;
    go.whole_domain = false;
    Ctx scratch;
    auto td = cv::gen_v2_track(s, scratch, go);
    auto ov = cv::gen_v2_overview(s, scratch, go);
    auto bd = cv::gen_v2_beat(s, scratch, go);
    auto qc = cv::gen_v2_cues(s, scratch, go);
    auto lp = cv::gen_v2_loops(s, scratch, go);
    for (auto& x : qc.quick_cues)
        if (x.label.size() > 255)
            x.label.resize(255);
    for (auto& x : lp.loops)
        if (x.label.size() > 255)
            x.label.resize(255);
    int flag = static_cast<int>(s.below(256));
    std::vector<Toks> toks = {cv::toks(td), cv::toks(ov), cv::toks(bd), cv::toks(qc, flag), cv::toks(lp)};
    static const int kinds[5] = {ref::V2_TRACK_DATA, ref::V2_OVERVIEW, ref::V2_BEAT_DATA, ref::V2_QUICK_CUES, ref::V2_LOOPS};
    static const char* cols[5] = {"trackData", "overviewWaveFormData", "beatData", "quickCues", "loops"};
    {
        sqlite3_stmt* st_ = nullptr;
        std::string sql = "UPDATE Track SET trackData = ?, overviewWaveFormData = ?, beatData = ?, quickCues = ?, loops = ? WHERE id = ?";
        VF_CHECK(sqlite3_prepare_v2(conn, sql.c_str(), -1, &st_, nullptr) == SQLITE_OK, "cannot prepare the injection statement");
        std::vector<ref::Bytes> enc;
        for (int i = 0; i < 5; ++i)
            enc.push_back(ref::encode(kinds[i], toks[i], static_cast<int>(s.below(11)) - 1));
        for (int i = 0; i < 5; ++i)
            sqlite3_bind_blob(st_, i + 1, enc[i].data(), static_cast<int>(enc[i].size()), SQLITE_TRANSIENT);
        sqlite3_bind_int64(st_, 6, tr.id());
        int rc = sqlite3_step(st_);
        sqlite3_finalize(st_);
        VF_CHECK(rc == SQLITE_DONE, "cannot inject foreign blobs");
    }
    bool foreign = !td.extra_data.empty() || !ov.extra_data.empty() || !bd.extra_data.empty() || !qc.extra_data.empty() || !lp.extra_data.empty() ||
                   qc.quick_cues.size() != 8 || lp.loops.size() != 8 || flag > 1;
    // the library must accept the foreign row at all (otherwise nothing to preserve)
    try
    {
        (void)tr.snapshot();
    }
    catch (const std::exception&)
    {
        ctx.label("foreign-row-rejected");
        return;
    }
    // ---- 0..3 preliminary steps on the SAME handle: observers and simple single-field setters whose effect on the layout tokens is
    // known exactly (so that state a handle may keep between calls - caches, stale copies - is exercised before the final setter)
    std::vector<Toks> exp = toks;
    size_t ncues0 = qc.quick_cues.size(), nloops0 = lp.loops.size();
    size_t flag_idx = 1 + 6 * ncues0 + 1;
    std::string prelim;
    size_t nprelim = h.below(4);
    for (size_t step = 0; step < nprelim; ++step)
    {
        try
        {
            switch (h.below(12))
            {
                case 0: (void)tr.snapshot(); prelim += " snapshot()"; break;
                case 1: (void)tr.key(); (void)tr.sample_rate(); (void)tr.sample_count(); prelim += " key()/sample_rate()/sample_count()"; break;
                case 2: (void)tr.average_loudness(); (void)tr.main_cue(); prelim += " average_loudness()/main_cue()"; break;
                case 3: (void)tr.hot_cues(); (void)tr.loops(); (void)tr.beatgrid(); (void)tr.waveform(); prelim += " hot_cues()/loops()/beatgrid()/waveform()"; break;
                case 4:
                {
                    auto k = static_cast<dj::musical_key>(h.below(24));
                    tr.set_key(k);
                    exp[0][2] = sc(static_cast<uint64_t>(static_cast<int64_t>(static_cast<int32_t>(k))));
                    prelim += " set_key(" + std::to_string(static_cast<int>(k)) + ")";
                    break;
                }
                case 5:
                {
                    unsigned long long n = 1000 + h.below(100000000);
                    tr.set_sample_count(n);
                    exp[0][1] = sc(n);
                    exp[2][1] = sc(ref::f2u(static_cast<double>(n)));
                    prelim += " set_sample_count(" + std::to_string(n) + ")";
                    break;
                }
                case 6:
                {
                    double r = h.coin() ? 48000.0 : 22050.0 + static_cast<double>(h.below(1000));
                    tr.set_sample_rate(r);
                    exp[0][0] = sc(ref::f2u(r));
                    exp[2][0] = sc(ref::f2u(r));
                    prelim += " set_sample_rate(" + std::to_string(r) + ")";
                    break;
                }
                case 7:
                {
                    double l = static_cast<double>(1 + h.below(999)) / 1000.0;
                    tr.set_average_loudness(l);
                    exp[0][3] = exp[0][4] = exp[0][5] = sc(ref::f2u(l));
                    prelim += " set_average_loudness(" + std::to_string(l) + ")";
                    break;
                }
                case 8:
                {
                    double v = 100.0 + static_cast<double>(h.below(100000));
                    tr.set_main_cue(v);
                    exp[3][1 + 6 * ncues0] = sc(ref::f2u(v));
                    exp[3][flag_idx] = sc(1);
                    exp[3][flag_idx + 1] = sc(ref::f2u(v));
                    prelim += " set_main_cue(" + std::to_string(v) + ")";
                    break;
                }
                case 9:
                {
                    if (ncues0 == 0)
                        break;
                    size_t i = h.below(std::min<size_t>(ncues0, 8));
                    dj::hot_cue cue{"p" + std::to_string(step), 50.0 + static_cast<double>(h.below(1000)), e::standard_pad_colors::pads[h.below(8)]};
                    tr.set_hot_cue_at(static_cast<int>(i), cue);
                    Toks one;
                    push_cue(one, cue);
                    for (size_t k = 0; k < 6; ++k)
                        exp[3][1 + 6 * i + k] = one[k];
                    if (exp[3][flag_idx].v > 1)
                        exp[3][flag_idx] = sc(1);
                    prelim += " set_hot_cue_at(" + std::to_string(i) + ")";
                    break;
                }
                case 10:
                {
                    if (nloops0 == 0)
                        break;
                    size_t i = h.below(std::min<size_t>(nloops0, 8));
                    dj::loop l{"q" + std::to_string(step), 10.0 + static_cast<double>(h.below(1000)), 5000.0, e::standard_pad_colors::pads[h.below(8)]};
                    tr.set_loop_at(static_cast<int>(i), l);
                    Toks one;
                    push_loop(one, l);
                    for (size_t k = 0; k < 9; ++k)
                        exp[4][1 + 9 * i + k] = one[k];
                    prelim += " set_loop_at(" + std::to_string(i) + ")";
                    break;
                }
                default: tr.set_title(std::string("t") + std::to_string(step)); tr.set_rating(40); prelim += " set_title/set_rating"; break;
            }
        }
        catch (const std::exception& ex)
        {
            VF_CHECK(false, "a simple accessor on a track with foreign blobs threw after" << prelim << ": " << ex.what());
        }
    }
    if (nprelim >= 2)
        ctx.label("multi-step");
    toks = exp;  // the final setter is judged against the state the preliminary steps must have produced
    // one single-field setter
    static const std::vector<SetterTouch> menu = {{"main_cue", 3},     {"hot_cue_at", 3},  {"hot_cues", 3},     {"loop_at", 4},          {"loops", 4},  {"key", 0},
                                                  {"sample_count", 0}, {"sample_rate", 0}, {"average_loudness", 0}, {"beatgrid", 2}, {"waveform", 1}, {"title", -1},
                                                  {"rating", -1},      {"bpm", -1},        {"relative_path", -1}};
    const SetterTouch& st_choice = menu[h.below(menu.size())];
    std::string name = st_choice.name;
    ctx.label("setter=" + name);
    std::set<size_t> may_change;  // token indices of the touched blob that the setter is entitled to change
    size_t ncues = qc.quick_cues.size(), nloops = lp.loops.size();
    bool threw = false;
    std::string desc = name;
    try
    {
        if (name == "main_cue")
        {
            tr.set_main_cue(12345.5);
            size_t b = 1 + 6 * ncues;
            may_change = {b, b + 1, b + 2};
        }
        else if (name == "hot_cue_at")
        {
            if (ncues == 0)
                return;
            int i = static_cast<int>(h.below(std::min<size_t>(ncues, 8)));
            tr.set_hot_cue_at(i, dj::hot_cue{"new", 777.0, e::standard_pad_colors::pad_2});
            for (size_t k = 0; k < 6; ++k)
                may_change.insert(1 + 6 * i + k);
            desc += "[" + std::to_string(i) + "]";
        }
        else if (name == "hot_cues")
        {
            tr.set_hot_cues({dj::hot_cue{"only", 5.0, e::standard_pad_colors::pad_1}});
            for (size_t k = 0; k < 1 + 6 * std::max<size_t>(ncues, 8); ++k)
                may_change.insert(k);  // the cue list (and its count) is the field being set; main cue and tail are not
        }
        else if (name == "loop_at")
        {
            if (nloops == 0)
                return;
            int i = static_cast<int>(h.below(std::min<size_t>(nloops, 8)));
            tr.set_loop_at(i, dj::loop{"newloop", 10.0, 20.0, e::standard_pad_colors::pad_3});
            for (size_t k = 0; k < 9; ++k)
                may_change.insert(1 + 9 * i + k);
            desc += "[" + std::to_string(i) + "]";
        }
        else if (name == "loops")
        {
            tr.set_loops({dj::loop{"l", 1.0, 2.0, e::standard_pad_colors::pad_4}});
            for (size_t k = 0; k < 1 + 9 * std::max<size_t>(nloops, 8); ++k)
                may_change.insert(k);
        }
        else if (name == "key")
        {
            tr.set_key(dj::musical_key::f_major);
            may_change = {2};
        }
        else if (name == "sample_count")
        {
            tr.set_sample_count(999999ull);
            may_change = {1};
        }
        else if (name == "sample_rate")
        {
            tr.set_sample_rate(48000.0);
            may_change = {0};
        }
        else if (name == "average_loudness")
        {
            tr.set_average_loudness(0.75);
            may_change = {3, 4, 5};
        }
        else if (name == "beatgrid")
            tr.set_beatgrid({{0, 0.0}, {16, 352800.0}});
        else if (name == "waveform")
            tr.set_waveform(std::vector<dj::waveform_entry>(300));
        else if (name == "title")
            tr.set_title(std::string("changed"));
        else if (name == "rating")
            tr.set_rating(60);
        else if (name == "bpm")
            tr.set_bpm(123.0);
        else if (name == "relative_path")
            tr.set_relative_path("foreign/moved.flac");
    }
    catch (const std::exception& ex)
    {
        threw = true;
        desc += " threw " + std::string(ex.what()).substr(0, 80);
    }
    ctx.describe = "schema " + sname(schema) + " foreign blobs (cues " + std::to_string(ncues) + ", loops " + std::to_string(nloops) + ", flag " + std::to_string(flag) +
                   ", tails " + std::to_string(td.extra_data.size()) + "/" + std::to_string(ov.extra_data.size()) + "/" + std::to_string(bd.extra_data.size()) + "/" +
                   std::to_string(qc.extra_data.size()) + "/" + std::to_string(lp.extra_data.size()) + ")" + (prelim.empty() ? std::string() : " after" + prelim) + " then set_" + desc;
    ctx.key = ctx.describe;
    ctx.nontrivial = foreign && !threw;
    auto after = raw_blobs(conn, true, tr.id());
    VF_CHECK(after.size() == 5, "track row vanished");
    for (int i = 0; i < 5; ++i)
    {
        Toks got = decode_blob(kinds[i], after[i], ctx.describe + ": column " + cols[i]);
        Toks want = toks[i];
        if (i == 3 && want[1 + 6 * ncues + 1].v > 1)
            want[1 + 6 * ncues + 1].v = 1;  // the boolean may be normalised to 1 when the blob is rewritten
        std::string what = ctx.describe + ": column " + cols[i];
        if (threw || i != st_choice.blob)
        {
            // untouched blob: every layout token identical (the boolean normalisation only applies if the blob was rewritten)
            if (i == 3 && got.size() == want.size() && got[1 + 6 * ncues + 1].v != toks[i][1 + 6 * ncues + 1].v)
                VF_CHECK(got[1 + 6 * ncues + 1].v == 1, what << ": main-cue flag byte changed to " << got[1 + 6 * ncues + 1].v);
            // setters of sample count / rate legitimately write the beat data header as well
            std::set<size_t> ign;
            if (!threw && i == 2 && name == "sample_count")
                ign = {1};
            if (!threw && i == 2 && name == "sample_rate")
                ign = {0};
            if (i == 3)
                ign.insert(1 + 6 * ncues + 1);
            expect_toks(want, got, what + " (not the setter's blob)", ign);
            continue;
        }
        // the setter's own blob: the tail and every token outside the field must survive
        VF_CHECK(!got.empty() && got.back().str && got.back() == want.back(), what << ": trailing data of the blob was altered or dropped (" << want.back().s.size() << " -> "
                                                                                   << (got.empty() ? 0 : got.back().s.size()) << " bytes)");
        if (name == "beatgrid")
        {
            VF_CHECK(got[0] == want[0] && got[1] == want[1], what << ": beat data header changed by set_beatgrid");
            continue;
        }
        if (name == "waveform")
            continue;
        if (name == "hot_cues" || name == "loops")
        {
            // everything after the entry list must be preserved: compare from the end
            size_t keep = name == "hot_cues" ? 4 : 1;
            VF_CHECK(got.size() >= keep && want.size() >= keep, what << ": blob too short");
            for (size_t k = 1; k <= keep; ++k)
            {
                if (name == "hot_cues" && k == 3)
                    continue;  // the flag byte (normalised)
                VF_CHECK(got[got.size() - k] == want[want.size() - k], what << ": token " << k << " from the end (after the entry list) changed");
            }
            continue;
        }
        if (i == 3)
            may_change.insert(1 + 6 * ncues + 1);
        expect_toks(want, got, what, may_change);
    }
}
}  // namespace api
