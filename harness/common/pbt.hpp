// Shared property-based-testing runtime for all /verif harnesses.
//
// A *case* is pure data: a list of records, each a list of 64-bit "choices".  Every harness decodes a
// case into structured arguments through vf::S (a cursor that yields 0 once a record is exhausted, so a
// truncated / zeroed record always decodes to the *simplest* value).  Cases are generated from
// rapidcheck's splittable Random and shrunk through rapidcheck's Shrinkable tree (shrinkRecur with the
// candidate function below); replay reads the text file and runs the property directly, with no
// rapidcheck involved.  The loop is owned here (not rc::check) so that a crashed campaign can be resumed
// at the next case index by the driver, and so that evidence counters survive.
#pragma once
#include <rapidcheck.h>

#include <algorithm>
#include <chrono>
#include <csignal>
#include <cstdint>
#include <cstdio>
#include <cstdlib>
#include <cstring>
#include <fcntl.h>
#include <fstream>
#include <functional>
#include <iostream>
#include <map>
#include <set>
#include <sstream>
#include <stdexcept>
#include <string>
#include <unistd.h>
#include <unordered_set>
#include <vector>

namespace vf
{
using Record = std::vector<uint64_t>;
using Case = std::vector<Record>;

inline std::string serialize(const Case& c)
{
    std::ostringstream os;
    os << "vfcase 1\n";
    for (auto& r : c)
    {
        os << "R";
        for (auto v : r)
            os << " " << v;
        os << "\n";
    }
    return os.str();
}

inline Case parse_case(const std::string& text)
{
    Case c;
    std::istringstream is(text);
    std::string line;
    while (std::getline(is, line))
    {
        if (line.empty() || line[0] != 'R')
            continue;
        std::istringstream ls(line.substr(1));
        Record r;
        uint64_t v;
        while (ls >> v)
            r.push_back(v);
        c.push_back(std::move(r));
    }
    return c;
}

inline uint64_t fnv1a(const std::string& s)
{
    uint64_t h = 1469598103934665603ull;
    for (unsigned char ch : s)
    {
        h ^= ch;
        h *= 1099511628211ull;
    }
    return h;
}

// Thrown by a property to report a violation of the property under test.
struct Fail : std::runtime_error
{
    using std::runtime_error::runtime_error;
};

#define VF_STR2(x) #x
#define VF_STR(x) VF_STR2(x)
#define VF_CHECK(cond, msg)                                                             \
    do                                                                                  \
    {                                                                                   \
        if (!(cond))                                                                    \
        {                                                                               \
            std::ostringstream vf_os_;                                                  \
            vf_os_ << msg << "  [" #cond " @" __FILE__ ":" VF_STR(__LINE__) "]";      \
            throw ::vf::Fail(vf_os_.str());                                             \
        }                                                                               \
    } while (0)

// Cursor over one record.  Exhausted => 0.
struct S
{
    const Record* r;
    size_t i = 0;
    static const Record& empty()
    {
        static Record e;
        return e;
    }
    S() : r(&empty()) {}
    explicit S(const Record& rec) : r(&rec) {}
    uint64_t raw() { return i < r->size() ? (*r)[i++] : 0; }
    uint64_t below(uint64_t n) { return n ? raw() % n : (raw(), 0); }
    int64_t between(int64_t lo, int64_t hi)
    {
        return lo + static_cast<int64_t>(below(static_cast<uint64_t>(hi - lo) + 1));
    }
    bool coin() { return raw() & 1; }
    // true with probability pct/100; a zero choice gives false.
    bool prob(int pct) { return below(100) >= static_cast<uint64_t>(100 - pct); }
    template <class T>
    const T& oneof(const std::vector<T>& v)
    {
        return v[below(v.size())];
    }
};

// splitmix64, used only to expand ONE choice into bulk payload (waveforms, large grids, long labels):
// deterministic function of the choice, so the case stays pure data.
struct Bulk
{
    uint64_t s;
    explicit Bulk(uint64_t seed) : s(seed) {}
    uint64_t next()
    {
        uint64_t z = (s += 0x9E3779B97F4A7C15ull);
        z = (z ^ (z >> 30)) * 0xBF58476D1CE4E5B9ull;
        z = (z ^ (z >> 27)) * 0x94D049BB133111EBull;
        return z ^ (z >> 31);
    }
};

struct Ctx
{
    std::set<std::string> avoid;  // known-finding trigger predicates the generators must route around
    bool replay = false;
    std::string tier = "quick";
    // per-case outputs
    bool nontrivial = false;
    std::string key;       // canonical text for the distinct count (defaults to the serialised case)
    std::string describe;  // human-readable rendering, used for evidence samples
    std::vector<std::string> labels;
    std::vector<std::string> excluded;  // known-finding triggers hit and routed around in this case
    bool avoiding(const std::string& name) const { return avoid.count(name) != 0; }
    void label(const std::string& l) { labels.push_back(l); }
    // returns true if the generator must route around trigger `name`; counts it.
    bool exclude(const std::string& name)
    {
        if (!avoiding(name))
            return false;
        excluded.push_back(name);
        return true;
    }
    void reset()
    {
        nontrivial = false;
        key.clear();
        describe.clear();
        labels.clear();
        excluded.clear();
    }
};

using PropertyFn = std::function<void(const Case&, Ctx&)>;

struct PropSpec
{
    std::string id;       // e.g. "C19" or "C02.codec"
    PropertyFn fn;
    int rec_min = 1;      // number of records
    int rec_max = 1;
    int rec_len = 32;     // choices per record
    int watchdog_s = 20;  // per-case alarm
    std::vector<std::string> essential;  // labels that must be seen at least once in a full run
    // > 0: the property enumerates a finite space. Case number i is the single record {i} (no randomness, no
    // shrinking); running indices 0..enum_total-1 covers the space completely.
    uint64_t enum_total = 0;
};

// ---------------------------------------------------------------- crash / hang dump
namespace detail
{
inline char g_dump_path[512];
inline char g_dump_buf[1 << 22];
inline size_t g_dump_len = 0;
inline char g_stats_path[512];
inline std::function<std::string()>* g_stats_fn = nullptr;
inline volatile sig_atomic_t g_dumped = 0;
inline void (*g_on_alarm)() = nullptr;  // optional first-stage alarm action (e.g. sqlite3_interrupt)
inline volatile sig_atomic_t g_alarm_stage = 0;

inline void dump_now(const char* reason)
{
    if (g_dumped)
        return;
    g_dumped = 1;
    if (g_dump_path[0])
    {
        int fd = ::open(g_dump_path, O_WRONLY | O_CREAT | O_TRUNC, 0644);
        if (fd >= 0)
        {
            (void)!::write(fd, "# reason: ", 10);
            (void)!::write(fd, reason, strlen(reason));
            (void)!::write(fd, "\n", 1);
            (void)!::write(fd, g_dump_buf, g_dump_len);
            ::close(fd);
        }
    }
    // counters (not async-signal-safe, best effort; we are dying anyway)
    if (g_stats_fn && g_stats_path[0])
    {
        try
        {
            std::string s = (*g_stats_fn)();
            int fd = ::open(g_stats_path, O_WRONLY | O_CREAT | O_TRUNC, 0644);
            if (fd >= 0)
            {
                (void)!::write(fd, s.data(), s.size());
                ::close(fd);
            }
        }
        catch (...)
        {
        }
    }
}
inline void death_cb() { dump_now("sanitizer-or-abort"); }
inline void on_signal(int sig)
{
    if (sig == SIGALRM)
    {
        if (g_on_alarm && g_alarm_stage == 0)
        {
            g_alarm_stage = 1;
            g_on_alarm();
            alarm(3);
            return;
        }
        dump_now("hang");
        const char m[] = "\nVF-HANG: watchdog expired\n";
        (void)!::write(2, m, sizeof m - 1);
        _exit(3);
    }
    dump_now("signal");
    const char m[] = "\nVF-SIGNAL: fatal signal\n";
    (void)!::write(2, m, sizeof m - 1);
    _exit(3);
}
}  // namespace detail

extern "C" void __sanitizer_set_death_callback(void (*)(void)) __attribute__((weak));

inline void set_current_case(const Case& c)
{
    std::string s = serialize(c);
    if (s.size() >= sizeof detail::g_dump_buf)
        s.resize(sizeof detail::g_dump_buf - 1);
    memcpy(detail::g_dump_buf, s.data(), s.size());
    detail::g_dump_len = s.size();
}

inline void install_handlers(const std::string& dump_path, const std::string& stats_path)
{
    snprintf(detail::g_dump_path, sizeof detail::g_dump_path, "%s", dump_path.c_str());
    snprintf(detail::g_stats_path, sizeof detail::g_stats_path, "%s", stats_path.c_str());
    if (__sanitizer_set_death_callback)
        __sanitizer_set_death_callback(detail::death_cb);
    struct sigaction sa;
    memset(&sa, 0, sizeof sa);
    sa.sa_handler = detail::on_signal;
    sigaction(SIGALRM, &sa, nullptr);
    if (!__sanitizer_set_death_callback)
    {
        sigaction(SIGABRT, &sa, nullptr);
        sigaction(SIGSEGV, &sa, nullptr);
        sigaction(SIGBUS, &sa, nullptr);
        sigaction(SIGFPE, &sa, nullptr);
        sigaction(SIGILL, &sa, nullptr);
    }
    std::set_terminate(
        []
        {
            detail::dump_now("terminate");
            const char m[] = "\nVF-TERMINATE: std::terminate (uncaught / non-std exception)\n";
            (void)!::write(2, m, sizeof m - 1);
            _exit(3);
        });
}

inline void arm_watchdog(int secs)
{
    detail::g_alarm_stage = 0;
    alarm(secs);
}
inline void disarm_watchdog() { alarm(0); }

// ---------------------------------------------------------------- generation + shrinking
inline rc::Seq<Case> shrink_candidates(const Case& c)
{
    // Lazily enumerated candidates, most aggressive first:
    //  A. drop record k (k >= 1: record 0 is the header) — last first; also drop the second half
    //  B. truncate record k to half / by one
    //  C. element (k, j): set to 0, halve, decrement
    std::vector<std::function<bool(Case&)>> plan;
    size_t n = c.size();
    if (n > 2)
        plan.push_back(
            [n](Case& x)
            {
                x.resize(1 + (n - 1) / 2);
                return true;
            });
    for (size_t k = n; k-- > 1;)
        plan.push_back(
            [k](Case& x)
            {
                x.erase(x.begin() + k);
                return true;
            });
    for (size_t k = 0; k < n; ++k)
    {
        size_t len = c[k].size();
        if (len > 1)
            plan.push_back(
                [k, len](Case& x)
                {
                    x[k].resize(len / 2);
                    return true;
                });
        if (len > 0)
            plan.push_back(
                [k, len](Case& x)
                {
                    x[k].resize(len - 1);
                    return true;
                });
    }
    for (size_t k = 0; k < n; ++k)
        for (size_t j = 0; j < c[k].size(); ++j)
        {
            uint64_t v = c[k][j];
            if (v == 0)
                continue;
            plan.push_back(
                [k, j](Case& x)
                {
                    x[k][j] = 0;
                    return true;
                });
            if (v > 1)
                plan.push_back(
                    [k, j, v](Case& x)
                    {
                        x[k][j] = v / 2;
                        return true;
                    });
            if (v > 2 && v < 1024)
                plan.push_back(
                    [k, j, v](Case& x)
                    {
                        x[k][j] = v - 1;
                        return true;
                    });
            if (v >= 1024)
                plan.push_back(
                    [k, j, v](Case& x)
                    {
                        x[k][j] = v % 1024;
                        return true;
                    });
        }
    auto shared = std::make_shared<std::vector<std::function<bool(Case&)>>>(std::move(plan));
    auto base = std::make_shared<Case>(c);
    return rc::seq::map(rc::seq::range<size_t>(0, shared->size()),
                        [shared, base](size_t idx)
                        {
                            Case x = *base;
                            (*shared)[idx](x);
                            return x;
                        });
}

inline rc::Gen<Case> case_gen(const PropSpec& spec)
{
    int rmin = spec.rec_min, rmax = spec.rec_max, rlen = spec.rec_len;
    return rc::Gen<Case>(
        [=](const rc::Random& random, int size)
        {
            rc::Random r(random);
            int hi = rmin + (rmax - rmin) * std::min(size, 100) / 100;
            if (hi < rmin)
                hi = rmin;
            int n = rmin + static_cast<int>(r.next() % static_cast<uint64_t>(hi - rmin + 1));
            Case c(n);
            for (auto& rec : c)
            {
                rec.resize(rlen);
                for (auto& v : rec)
                    v = r.next();
            }
            return rc::shrinkable::shrinkRecur(std::move(c), &shrink_candidates);
        });
}

struct Stats
{
    std::string prop;
    uint64_t evaluations = 0;
    uint64_t nontrivial = 0;
    uint64_t failures = 0;
    uint64_t first_index = 0, next_index = 0;
    std::map<std::string, uint64_t> labels;
    std::map<std::string, uint64_t> excluded;
    std::vector<std::string> samples;
    std::vector<std::string> nontrivial_samples;
    std::unordered_set<uint64_t> hashes;
    std::vector<std::pair<std::string, std::string>> fails;  // (message, replay path)
    double wall = 0;
    static std::string esc(const std::string& s)
    {
        std::string o;
        for (unsigned char ch : s)
        {
            if (ch == '"' || ch == '\\')
            {
                o += '\\';
                o += ch;
            }
            else if (ch == '\n')
                o += "\\n";
            else if (ch < 0x20 || ch >= 0x7f)
            {
                char b[8];
                snprintf(b, sizeof b, "\\u%04x", ch);
                o += b;
            }
            else
                o += ch;
        }
        return o;
    }
    std::string json() const
    {
        std::ostringstream os;
        os << "{\"prop\":\"" << esc(prop) << "\",\"evaluations\":" << evaluations
           << ",\"nontrivial\":" << nontrivial << ",\"distinct_nontrivial_local\":" << hashes.size()
           << ",\"failures\":" << failures << ",\"first_index\":" << first_index
           << ",\"next_index\":" << next_index << ",\"wall_s\":" << wall << ",\"labels\":{";
        bool f = true;
        for (auto& kv : labels)
        {
            os << (f ? "" : ",") << "\"" << esc(kv.first) << "\":" << kv.second;
            f = false;
        }
        os << "},\"excluded_known\":{";
        f = true;
        for (auto& kv : excluded)
        {
            os << (f ? "" : ",") << "\"" << esc(kv.first) << "\":" << kv.second;
            f = false;
        }
        os << "},\"samples\":[";
        f = true;
        for (auto& s : samples)
        {
            os << (f ? "" : ",") << "\"" << esc(s) << "\"";
            f = false;
        }
        for (auto& s : nontrivial_samples)
        {
            os << (f ? "" : ",") << "\"" << esc(s) << "\"";
            f = false;
        }
        os << "],\"fails\":[";
        f = true;
        for (auto& kv : fails)
        {
            os << (f ? "" : ",") << "{\"msg\":\"" << esc(kv.first) << "\",\"replay\":\"" << esc(kv.second)
               << "\"}";
            f = false;
        }
        os << "]}";
        return os.str();
    }
};

inline std::string trunc(const std::string& s, size_t n = 1500)
{
    return s.size() <= n ? s : s.substr(0, n) + "...(" + std::to_string(s.size()) + " chars)";
}

// Runs the property on one case. Returns empty string if it held, else the violation message.
inline std::string run_one(const PropSpec& spec, const Case& c, Ctx& ctx)
{
    ctx.reset();
    set_current_case(c);
    arm_watchdog(spec.watchdog_s);
    std::string res;
    try
    {
        spec.fn(c, ctx);
    }
    catch (const Fail& f)
    {
        res = f.what();
        if (res.empty())
            res = "violation";
    }
    // Anything else escaping the property function is a harness defect or a library exception the
    // property did not expect; properties catch what they allow. Report it as a violation message so
    // that it is visible and replayable, prefixed for classification.
    catch (const std::exception& e)
    {
        res = std::string("UNEXPECTED-EXCEPTION: ") + e.what();
    }
    disarm_watchdog();
    return res;
}

inline std::string signature(const std::string& msg)
{
    // failure class = message up to the first ':' or 60 chars, digits squashed
    std::string s = msg.substr(0, msg.find("  ["));
    size_t p = s.find_first_of(":(");
    if (p != std::string::npos)
        s = s.substr(0, p);
    if (s.size() > 80)
        s.resize(80);
    for (auto& ch : s)
        if (isdigit(static_cast<unsigned char>(ch)))
            ch = '#';
    return s;
}

inline int usage()
{
    std::cerr << "usage: <bin> run --prop ID --seed S --start I --count N --maxsize M --out PREFIX "
                 "[--avoid a,b] [--tier T]\n"
                 "       <bin> replay --prop ID --case FILE [--avoid a,b] [--tier T]\n"
                 "       <bin> merge FILE.hashes...\n"
                 "       <bin> list\n";
    return 2;
}

inline int pbt_main(int argc, char** argv, const std::vector<PropSpec>& specs)
{
    if (argc < 2)
        return usage();
    std::string mode = argv[1];
    std::map<std::string, std::string> opt;
    std::vector<std::string> pos;
    for (int i = 2; i < argc; ++i)
    {
        std::string a = argv[i];
        if (a.rfind("--", 0) == 0 && i + 1 < argc)
        {
            opt[a.substr(2)] = argv[i + 1];
            ++i;
        }
        else
            pos.push_back(a);
    }
    if (mode == "list")
    {
        for (auto& s : specs)
            std::cout << s.id << " " << s.enum_total << "\n";
        return 0;
    }
    if (mode == "merge")
    {
        std::vector<uint64_t> all;
        for (auto& p : pos)
        {
            std::ifstream f(p, std::ios::binary);
            uint64_t v;
            while (f.read(reinterpret_cast<char*>(&v), 8))
                all.push_back(v);
        }
        std::sort(all.begin(), all.end());
        all.erase(std::unique(all.begin(), all.end()), all.end());
        std::cout << all.size() << "\n";
        return 0;
    }
    const PropSpec* spec = nullptr;
    for (auto& s : specs)
        if (s.id == opt["prop"])
            spec = &s;
    if (!spec)
    {
        std::cerr << "unknown --prop " << opt["prop"] << "\n";
        return 2;
    }
    Ctx ctx;
    {
        std::istringstream is(opt["avoid"]);
        std::string t;
        while (std::getline(is, t, ','))
            if (!t.empty())
                ctx.avoid.insert(t);
    }
    if (opt.count("tier"))
        ctx.tier = opt["tier"];

    if (mode == "replay")
    {
        std::ifstream f(opt["case"]);
        if (!f)
        {
            std::cerr << "cannot read " << opt["case"] << "\n";
            return 2;
        }
        std::stringstream ss;
        ss << f.rdbuf();
        Case c = parse_case(ss.str());
        ctx.replay = true;
        install_handlers(opt.count("out") ? opt["out"] + ".crash.case" : "", "");
        std::string res = run_one(*spec, c, ctx);
        std::cout << "CASE: " << trunc(ctx.describe, 6000) << "\n";
        if (res.empty())
        {
            std::cout << "REPLAY-PASS " << spec->id << "\n";
            return 0;
        }
        std::cout << "REPLAY-FAIL " << spec->id << " " << res << "\n";
        return 1;
    }
    if (mode != "run")
        return usage();

    uint64_t seed = std::stoull(opt.count("seed") ? opt["seed"] : "1");
    uint64_t start = std::stoull(opt.count("start") ? opt["start"] : "0");
    uint64_t count = std::stoull(opt.count("count") ? opt["count"] : "100");
    int maxsize = std::stoi(opt.count("maxsize") ? opt["maxsize"] : "100");
    uint64_t max_shrink = std::stoull(opt.count("maxshrink") ? opt["maxshrink"] : "3000");
    std::string out = opt["out"];
    if (out.empty())
        return usage();

    Stats st;
    st.prop = spec->id;
    st.first_index = start;
    st.next_index = start;
    std::function<std::string()> stats_fn = [&] { return st.json(); };
    detail::g_stats_fn = &stats_fn;
    install_handlers(out + ".crash.case", out + ".json");

    auto gen = case_gen(*spec);
    std::set<std::string> seen_sigs;
    auto t0 = std::chrono::steady_clock::now();
    const uint64_t HASH_CAP = 4000000;
    uint64_t sample_every = std::max<uint64_t>(1, count / 4);
    for (uint64_t i = start; i < start + count; ++i)
    {
        st.next_index = i;  // if we crash, this is the index in flight
        // each case is a pure function of (seed, property id, i)
        rc::Random rnd(seed * 0x9E3779B97F4A7C15ull ^ fnv1a(spec->id) ^ (i * 0xD1B54A32D192ED03ull));
        int size = maxsize <= 0 ? 0 : static_cast<int>((i * 37 + 11) % static_cast<uint64_t>(maxsize + 1));
        auto shrinkable = spec->enum_total > 0 ? rc::shrinkable::just(Case{Record{i}}) : gen(rnd, size);
        if (spec->enum_total > 0 && i >= spec->enum_total)
            break;
        Case c = shrinkable.value();
        std::string res = run_one(*spec, c, ctx);
        ++st.evaluations;
        for (auto& l : ctx.labels)
            ++st.labels[l];
        for (auto& l : ctx.excluded)
            ++st.excluded[l];
        if (ctx.nontrivial)
        {
            ++st.nontrivial;
            if (st.hashes.size() < HASH_CAP)
                st.hashes.insert(fnv1a(ctx.key.empty() ? serialize(c) : ctx.key));
            if (st.nontrivial_samples.size() < 3 && (st.nontrivial % 97 == 1))
                st.nontrivial_samples.push_back(trunc(ctx.describe));
        }
        if (st.samples.size() < 2 || ((i - start) % sample_every == sample_every - 1 && st.samples.size() < 6))
            st.samples.push_back(trunc(ctx.describe));
        if (!res.empty())
        {
            ++st.failures;
            std::string sig = signature(res);
            if (seen_sigs.insert(sig).second && st.fails.size() < 6)
            {
                // shrink: greedy walk of the rapidcheck shrink tree
                auto cur = shrinkable;
                std::string cur_msg = res;
                uint64_t steps = 0;
                bool progress = true;
                // shrinking is bounded by steps and, because a step can be very slow on a broken tree, by 20 s of wall clock per failure:
                // the bound affects how small the replay file is, never whether the failure is reported
                auto shrink_t0 = std::chrono::steady_clock::now();
                auto shrink_late = [&] { return std::chrono::steady_clock::now() - shrink_t0 > std::chrono::seconds(20); };
                while (progress && steps < max_shrink && !shrink_late())
                {
                    progress = false;
                    auto seq = cur.shrinks();
                    while (auto cand = seq.next())
                    {
                        if (++steps > max_shrink || shrink_late())
                            break;
                        Case cc = cand->value();
                        std::string r2 = run_one(*spec, cc, ctx);
                        if (!r2.empty() && signature(r2) == sig)
                        {
                            cur = *cand;
                            cur_msg = r2;
                            progress = true;
                            break;
                        }
                    }
                }
                Case minimal = cur.value();
                run_one(*spec, minimal, ctx);  // refresh describe
                std::string path = out + ".fail" + std::to_string(st.fails.size()) + ".case";
                std::ofstream f(path);
                f << "# property " << spec->id << " seed " << seed << " index " << i << " shrink_steps " << steps
                  << "\n# message: " << cur_msg.substr(0, 2000) << "\n# case: ";
                for (char ch : trunc(ctx.describe, 4000))
                    f << (ch == '\n' ? ' ' : ch);
                f << "\n" << serialize(minimal);
                f.close();
                st.fails.emplace_back(cur_msg.substr(0, 2000), path);
                std::cerr << "FAIL " << spec->id << " index " << i << ": " << cur_msg.substr(0, 600) << "\n";
            }
            // A tree on which this many cases fail is decided; running the rest of the segment only costs time (on some broken trees a
            // great deal: state left behind by a failed case can make every later case of the process slow).  Six distinct failure
            // classes are recorded at most, so nothing reportable is lost.
            if (st.fails.size() >= 6 || st.failures >= 40)
            {
                ++st.labels["segment-stopped:failure-cap"];
                break;
            }
        }
    }
    st.next_index = start + count;
    st.wall = std::chrono::duration<double>(std::chrono::steady_clock::now() - t0).count();
    {
        std::ofstream hf(out + ".hashes", std::ios::binary);
        for (auto h : st.hashes)
            hf.write(reinterpret_cast<const char*>(&h), 8);
    }
    {
        std::ofstream jf(out + ".json");
        jf << st.json();
    }
    return st.fails.empty() ? 0 : 1;
}
}  // namespace vf
