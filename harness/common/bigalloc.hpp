// Replacement operator new for harness binaries: turns absurd sizes into std::bad_alloc.
// ASan's own operator new cannot throw: it aborts ("allocation-size-too-big") or returns null, so a
// `vector::reserve(<untrusted huge count>)` — which the properties allow to end in an exception — would be
// misreported as a crash. malloc/free stay ASan-instrumented, so heap errors are still caught.
// Include from exactly ONE translation unit of a binary.
#pragma once
#include <cstdlib>
#include <new>
#ifndef VF_MAX_ALLOC_BYTES
#define VF_MAX_ALLOC_BYTES (256ull << 20)
#endif
static const size_t VF_MAX_ALLOC = VF_MAX_ALLOC_BYTES;
void* operator new(size_t n)
{
    if (n > VF_MAX_ALLOC)
        throw std::bad_alloc();
    void* p = malloc(n ? n : 1);
    if (!p)
        throw std::bad_alloc();
    return p;
}
void* operator new[](size_t n) { return operator new(n); }
void operator delete(void* p) noexcept { free(p); }
void operator delete[](void* p) noexcept { free(p); }
void operator delete(void* p, size_t) noexcept { free(p); }
void operator delete[](void* p, size_t) noexcept { free(p); }
