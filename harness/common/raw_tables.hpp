// Content of every table of every attached database file as seen through a connection, one line per table (row count + order-independent
// digest of the rows, cells typed and length-prefixed).  An independent view of "the stored database": none of the library's accessors is
// involved, and statements run here do not pass the sqlite3_step shim (the harness is compiled without the redirection), so they are
// neither counted as fault points nor failed.
#pragma once
#include <sqlite3.h>

#include <algorithm>
#include <cstdint>
#include <functional>
#include <stdexcept>
#include <string>
#include <vector>

namespace vfraw
{
inline void each_row(sqlite3* db, const std::string& sql, const std::function<void(sqlite3_stmt*)>& f)
{
    sqlite3_stmt* st = nullptr;
    if (sqlite3_prepare_v2(db, sql.c_str(), -1, &st, nullptr) != SQLITE_OK)
        throw std::runtime_error("raw reader: cannot prepare '" + sql + "': " + sqlite3_errmsg(db));
    int rc;
    while ((rc = sqlite3_step(st)) == SQLITE_ROW)
        f(st);
    std::string err = rc == SQLITE_DONE ? "" : sqlite3_errmsg(db);
    sqlite3_finalize(st);
    if (!err.empty())
        throw std::runtime_error("raw reader: '" + sql + "' failed: " + err);
}
inline uint64_t fnv(uint64_t h, const void* p, size_t n)
{
    auto* b = static_cast<const unsigned char*>(p);
    for (size_t i = 0; i < n; ++i)
        h = (h ^ b[i]) * 1099511628211ull;
    return h;
}
inline std::string raw_tables(sqlite3* conn)
{
    std::string out;
    std::vector<std::string> dbs;
    each_row(conn, "PRAGMA database_list", [&](sqlite3_stmt* st) { dbs.emplace_back(reinterpret_cast<const char*>(sqlite3_column_text(st, 1))); });
    for (auto& dbn : dbs)
    {
        if (dbn == "temp")
            continue;
        std::vector<std::string> tables;
        each_row(conn, "SELECT name FROM \"" + dbn + "\".sqlite_master WHERE type='table' ORDER BY name",
                 [&](sqlite3_stmt* st) { tables.emplace_back(reinterpret_cast<const char*>(sqlite3_column_text(st, 0))); });
        for (auto& t : tables)
        {
            std::vector<uint64_t> hs;
            each_row(conn, "SELECT * FROM \"" + dbn + "\".\"" + t + "\"", [&](sqlite3_stmt* st) {
                uint64_t h = 1469598103934665603ull;
                for (int i = 0; i < sqlite3_column_count(st); ++i)
                {
                    int ty = sqlite3_column_type(st, i);
                    uint64_t n = ty == SQLITE_NULL ? 0 : static_cast<uint64_t>(sqlite3_column_bytes(st, i));
                    const void* p = ty == SQLITE_NULL ? nullptr : sqlite3_column_blob(st, i);
                    h = fnv(h, &ty, sizeof ty);
                    h = fnv(h, &n, sizeof n);
                    if (p && n)
                        h = fnv(h, p, n);
                }
                hs.push_back(h);
            });
            std::sort(hs.begin(), hs.end());
            uint64_t all = 1469598103934665603ull;
            for (auto h : hs)
                all = fnv(all, &h, sizeof h);
            out += dbn + "." + t + " rows=" + std::to_string(hs.size()) + " digest=" + std::to_string(all) + "\n";
        }
    }
    return out;
}
}  // namespace vfraw
