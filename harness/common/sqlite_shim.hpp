// The library variants `san` and `fast` are compiled with -Dsqlite3_step=verif_sqlite3_step, which routes the
// single sqlite3_step call site of sqlite_modern_cpp through this shim.  No source change in /repo.
#pragma once
#include <sqlite3.h>

#include <cstdint>
#include <string>
#include <vector>

namespace vfshim
{
struct State
{
    sqlite3* last_db = nullptr;       // connection of the most recently stepped statement
    uint64_t steps = 0;               // all sqlite3_step calls
    uint64_t write_steps = 0;         // steps of statements that are not read-only
    uint64_t fault_points = 0;        // write steps + COMMIT steps seen since arm()/reset_counters()
    uint64_t read_points = 0;         // steps of read-only statements other than COMMIT / END / ROLLBACK / RELEASE (SELECT rows, BEGIN, PRAGMA ...)
    uint64_t fail_at = 0;             // 1-based fault point to fail; 0 = disarmed
    bool in_call = false;             // true while the harness is inside the library call under test (read points are counted only then)
    bool fail_reads = false;          // false: fail_at counts fault_points; true: fail_at counts read_points
    int fail_code = SQLITE_IOERR;
    bool fired = false;
    bool record_sql = false;
    std::vector<std::string> write_sql;  // SQL of non-read-only statements stepped while record_sql
};
State& state();
inline void reset_counters()
{
    auto& s = state();
    s.steps = s.write_steps = s.fault_points = s.read_points = 0;
    s.fired = false;
    s.write_sql.clear();
}
inline void arm(uint64_t k, bool reads = false)
{
    reset_counters();
    state().fail_at = k;
    state().fail_reads = reads;
}
inline void disarm() { state().fail_at = 0; }
struct CallScope
{
    CallScope() { state().in_call = true; }
    ~CallScope() { state().in_call = false; }
};
}  // namespace vfshim

extern "C" int verif_sqlite3_step(sqlite3_stmt* stmt);
