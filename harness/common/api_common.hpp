// Shared vocabulary for the API-level harnesses: schemas, snapshot generators, canonical field renderings,
// the expected read-back N(schema, s) (DESIGN appendix A), getter/setter tables.
#pragma once
#include <djinterop/djinterop.hpp>
#include <djinterop/engine/engine.hpp>

#include <chrono>
#include <climits>
#include <cmath>
#include <map>
#include <optional>

#include "pbt.hpp"
#include "sqlite_shim.hpp"

namespace api
{
namespace dj = djinterop;
namespace e = djinterop::engine;
using vf::Bulk;
using vf::Ctx;
using vf::S;
using Fields = std::map<std::string, std::string>;  // field name -> canonical rendering

inline const std::vector<e::engine_schema>& schemas()
{
    static std::vector<e::engine_schema> v(e::supported_schemas.begin(), e::supported_schemas.end());
    return v;
}
inline bool is_v2(e::engine_schema s) { return static_cast<int>(s) >= static_cast<int>(e::engine_schema::schema_2_18_0); }
inline bool has_file_bytes(e::engine_schema s) { return is_v2(s) || static_cast<int>(s) >= static_cast<int>(e::engine_schema::schema_1_15_0); }
inline std::string sname(e::engine_schema s) { return e::to_string(s); }

// ------------------------------------------------------------------------------------------ renderings
inline std::string hexs(const std::string& s, size_t cap = 40)
{
    static const char* d = "0123456789abcdef";
    std::string o;
    bool printable = true;
    for (unsigned char c : s)
        if (c < 0x20 || c >= 0x7f || c == '"' || c == '\\')
            printable = false;
    if (printable && s.size() <= cap)
        return "\"" + s + "\"";
    o = "x";
    for (size_t i = 0; i < s.size() && i < cap; ++i)
    {
        unsigned char c = s[i];
        o += d[c >> 4];
        o += d[c & 15];
    }
    if (s.size() > cap)
        o += "..(" + std::to_string(s.size()) + "B#" + std::to_string(vf::fnv1a(s) % 1000000007ull) + ")";
    return o;
}
inline std::string dbl(double d)
{
    uint64_t u;
    memcpy(&u, &d, 8);
    char b[64];
    snprintf(b, sizeof b, "%.17g/%016llx", d, (unsigned long long)u);
    return b;
}
template <class T, class F>
std::string ropt(const std::optional<T>& o, F f)
{
    return o ? f(*o) : std::string("-");
}
inline std::string rstr(const std::optional<std::string>& o)
{
    return ropt(o, [](const std::string& s) { return hexs(s); });
}
template <class T>
std::string rint(const std::optional<T>& o)
{
    return ropt(o, [](T v) { return std::to_string(v); });
}
inline std::string rdbl(const std::optional<double>& o) { return ropt(o, dbl); }
inline std::string rcolor(const dj::pad_color& c)
{
    char b[16];
    snprintf(b, sizeof b, "%02x%02x%02x%02x", c.r, c.g, c.b, c.a);
    return b;
}
inline std::string rcue(const std::optional<dj::hot_cue>& c)
{
    return c ? "(" + hexs(c->label, 12) + "," + dbl(c->sample_offset) + "," + rcolor(c->color) + ")" : std::string("-");
}
inline std::string rloop(const std::optional<dj::loop>& c)
{
    return c ? "(" + hexs(c->label, 12) + "," + dbl(c->start_sample_offset) + "," + dbl(c->end_sample_offset) + "," + rcolor(c->color) + ")"
             : std::string("-");
}
template <class V, class F>
std::string rvec(const V& v, F f, size_t cap = 12)
{
    std::string s = "[" + std::to_string(v.size()) + ":";
    uint64_t h = 1469598103934665603ull;
    size_t i = 0;
    for (auto& x : v)
    {
        std::string es = f(x);
        if (i++ < cap)
            s += es + " ";
        for (unsigned char ch : es)
        {
            h ^= ch;
            h *= 1099511628211ull;
        }
    }
    return s + "#" + std::to_string(h % 1000000007ull) + "]";
}
inline std::string rcues(const std::vector<std::optional<dj::hot_cue>>& v) { return rvec(v, rcue); }
inline std::string rloops(const std::vector<std::optional<dj::loop>>& v) { return rvec(v, rloop); }
inline std::string rgrid(const std::vector<dj::beatgrid_marker>& g)
{
    return rvec(g, [](const dj::beatgrid_marker& m) { return "(" + std::to_string(m.index) + "," + dbl(m.sample_offset) + ")"; }, 4);
}
inline std::string rwave(const std::vector<dj::waveform_entry>& w)
{
    return rvec(
        w,
        [](const dj::waveform_entry& x)
        {
            char b[32];
            snprintf(b, sizeof b, "%02x%02x%02x/%02x%02x%02x", x.low.value, x.mid.value, x.high.value, x.low.opacity, x.mid.opacity, x.high.opacity);
            return std::string(b);
        },
        3);
}
inline std::string rtime(const std::optional<std::chrono::system_clock::time_point>& t)
{
    return ropt(t, [](std::chrono::system_clock::time_point p)
                { return std::to_string(std::chrono::duration_cast<std::chrono::milliseconds>(p.time_since_epoch()).count()) + "ms"; });
}
inline std::string rdur(const std::optional<std::chrono::milliseconds>& d)
{
    return ropt(d, [](std::chrono::milliseconds m) { return std::to_string(m.count()) + "ms"; });
}
inline std::string rkey(const std::optional<dj::musical_key>& k)
{
    return ropt(k, [](dj::musical_key x) { return std::to_string(static_cast<int>(x)); });
}

inline Fields fields_of(const dj::track_snapshot& s)
{
    Fields f;
    f["album"] = rstr(s.album);
    f["artist"] = rstr(s.artist);
    f["average_loudness"] = rdbl(s.average_loudness);
    f["beatgrid"] = rgrid(s.beatgrid);
    f["bitrate"] = rint(s.bitrate);
    f["bpm"] = rdbl(s.bpm);
    f["comment"] = rstr(s.comment);
    f["composer"] = rstr(s.composer);
    f["duration"] = rdur(s.duration);
    f["file_bytes"] = rint(s.file_bytes);
    f["genre"] = rstr(s.genre);
    f["hot_cues"] = rcues(s.hot_cues);
    f["key"] = rkey(s.key);
    f["last_played_at"] = rtime(s.last_played_at);
    f["loops"] = rloops(s.loops);
    f["main_cue"] = rdbl(s.main_cue);
    f["publisher"] = rstr(s.publisher);
    f["rating"] = rint(s.rating);
    f["relative_path"] = rstr(s.relative_path);
    f["sample_count"] = rint(s.sample_count);
    f["sample_rate"] = rdbl(s.sample_rate);
    f["title"] = rstr(s.title);
    f["track_number"] = rint(s.track_number);
    f["waveform"] = rwave(s.waveform);
    f["year"] = rint(s.year);
    return f;
}
inline std::string render(const Fields& f)
{
    std::string s;
    for (auto& kv : f)
        s += kv.first + "=" + kv.second + " ";
    return s;
}
inline std::string diff(const Fields& want, const Fields& got)
{
    std::string s;
    for (auto& kv : want)
    {
        auto it = got.find(kv.first);
        if (it == got.end())
            s += "\n    " + kv.first + ": want " + kv.second + " got <missing>";
        else if (it->second != kv.second)
            s += "\n    " + kv.first + ": want " + kv.second + " got " + it->second;
    }
    for (auto& kv : got)
        if (!want.count(kv.first))
            s += "\n    " + kv.first + ": unexpected " + kv.second;
    return s;
}

// ------------------------------------------------------------------------------------------ field generators
struct GenOpts
{
    bool v2 = false;
    bool hostile = false;  // C15: out-of-domain values (labels > 255, > 8 slots, NaN/huge numbers, missing path...)
    int serial = 0;        // makes relative paths unique
};

inline std::optional<std::string> gen_text(S& s, Ctx& ctx, bool hostile)
{
    static const std::vector<std::string> pool = {"",
                                                  "a",
                                                  "Some Title",
                                                  "it's \"quoted\"; DROP TABLE Track;--",
                                                  "100% [mix] \\ back`tick`",
                                                  "\xc3\x9cml\xc3\xa4ut \xe2\x82\xac \xf0\x9f\x8e\xb5",
                                                  "  leading and trailing  ",
                                                  "line1\nline2\ttab"};
    switch (s.below(8))
    {
        case 0: return std::nullopt;
        case 1: return std::string("");
        case 2:
        case 3:
        case 4: return pool[s.below(pool.size())];
        case 5:
        {
            size_t n = s.coin() ? 255 + s.below(3) : 300;
            if (hostile && s.below(4) == 0)
                n = 70000;
            ctx.label("text:long");
            Bulk b(s.raw());
            std::string o;
            while (o.size() < n)
                o += static_cast<char>('a' + b.next() % 26);
            return o;
        }
        default:
        {
            Bulk b(s.raw());
            size_t n = 1 + s.below(24);
            std::string o;
            static const char* utf[] = {"\xc3\xa9", "\xe2\x82\xac", "\xf0\x9f\x8e\xb5", "\xce\xa9", "'", "\"", ";", "%", "_"};
            while (o.size() < n)
            {
                uint64_t r = b.next();
                if ((r & 7) == 0)
                    o += utf[(r >> 3) % 9];
                else
                    o += static_cast<char>(0x20 + (r >> 8) % 0x5f);
            }
            return o;
        }
    }
}
inline std::optional<int> gen_int(S& s, bool hostile)
{
    (void)hostile;
    static const std::vector<int> e = {0, 1, -1, 100, 101, 320, 2024, INT_MAX, INT_MIN, 65536};
    switch (s.below(4))
    {
        case 0: return std::nullopt;
        case 1: return e[s.below(e.size())];
        case 2: return static_cast<int>(s.below(3000));
        default: return static_cast<int>(static_cast<uint32_t>(s.raw()));
    }
}
inline std::optional<int> gen_rating(S& s)
{
    static const std::vector<int> e = {0, 1, 20, 40, 60, 80, 99, 100, 101, -1, -100, 255, INT_MAX, INT_MIN};
    switch (s.below(3))
    {
        case 0: return std::nullopt;
        case 1: return e[s.below(e.size())];
        default: return static_cast<int>(s.below(120)) - 10;
    }
}
inline double gen_offset(S& s, Ctx& ctx, bool hostile)
{
    switch (s.below(hostile ? 10 : 8))
    {
        case 0: return 0.0;
        case 1: ctx.label("offset=-1"); return -1.0;
        case 2: return static_cast<double>(s.below(20000000));
        case 3: return static_cast<double>(s.below(20000000)) + 0.5;
        case 4: return -static_cast<double>(1 + s.below(100000)) - 0.25;
        case 5: return 1e15 + static_cast<double>(s.below(1000));
        case 6: return static_cast<double>(s.below(1000)) / 7.0;
        case 7: return -0.0;
        case 8: return s.coin() ? std::nan("") : INFINITY;
        default: return s.coin() ? 1e300 : -1e300;
    }
}
inline std::string gen_label(S& s, Ctx& ctx, bool hostile)
{
    size_t n;
    size_t cls = s.below(100);
    if (cls < 2)
    {
        n = 0;
        ctx.label("label=empty");
    }
    else if (cls < 84)
        n = 1 + s.below(10);
    else if (cls < 92)
    {
        n = 254 + s.below(2);
        if (n == 255)
            ctx.label("label=255");
    }
    else if (cls < 93 || (hostile && cls < 97))
    {
        n = s.coin() ? 256 : 300;
        ctx.label("label>255");
    }
    else
        n = 12 + s.below(30);
    Bulk b(s.raw());
    std::string o;
    static const char* utf[] = {"\xc3\xa9", "\xe2\x82\xac", "\xf0\x9f\x8e\xb5"};
    while (o.size() < n)
    {
        uint64_t r = b.next();
        if ((r & 15) == 0 && o.size() + 4 <= n)
            o += utf[(r >> 4) % 3];
        else
            o += static_cast<char>(0x21 + (r >> 8) % 0x5e);
    }
    o.resize(n);
    return o;
}
inline dj::pad_color gen_color(S& s)
{
    if (s.below(3) == 0)
        return e::standard_pad_colors::pads[s.below(8)];
    uint64_t r = s.raw();
    return dj::pad_color{static_cast<uint8_t>(r), static_cast<uint8_t>(r >> 8), static_cast<uint8_t>(r >> 16), static_cast<uint8_t>(r >> 24)};
}
inline std::optional<dj::hot_cue> gen_cue(S& s, Ctx& ctx, bool hostile)
{
    if (s.below(3) == 0)
        return std::nullopt;
    dj::hot_cue c;
    c.label = gen_label(s, ctx, hostile);
    c.sample_offset = gen_offset(s, ctx, hostile);
    c.color = gen_color(s);
    return c;
}
inline std::optional<dj::loop> gen_loop(S& s, Ctx& ctx, bool hostile)
{
    if (s.below(3) == 0)
        return std::nullopt;
    dj::loop c;
    c.label = gen_label(s, ctx, hostile);
    c.start_sample_offset = gen_offset(s, ctx, hostile);
    c.end_sample_offset = s.coin() ? c.start_sample_offset + static_cast<double>(s.below(400000)) : gen_offset(s, ctx, hostile);
    c.color = gen_color(s);
    return c;
}
inline size_t gen_slots(S& s, Ctx& ctx, bool hostile)
{
    size_t n;
    switch (s.below(8))
    {
        case 0: n = 0; break;
        case 1:
        case 2:
        case 3: n = 8; break;
        case 4:
            n = 9 + s.below(4);
            if (!hostile && s.below(3) != 0)
                n = 8;
            break;
        default: n = s.below(9); break;
    }
    if (n > 8)
        ctx.label("slots>8");
    return n;
}
inline std::vector<std::optional<dj::hot_cue>> gen_cues(S& s, Ctx& ctx, bool hostile)
{
    std::vector<std::optional<dj::hot_cue>> v(gen_slots(s, ctx, hostile));
    for (size_t i = 0; i < v.size(); ++i)
    {
        v[i] = gen_cue(s, ctx, hostile);
        if (v[i] && i == 0)
            ctx.label("cue-slot0");
        if (v[i] && i == 7)
            ctx.label("cue-slot7");
    }
    return v;
}
inline std::vector<std::optional<dj::loop>> gen_loops(S& s, Ctx& ctx, bool hostile)
{
    std::vector<std::optional<dj::loop>> v(gen_slots(s, ctx, hostile));
    for (size_t i = 0; i < v.size(); ++i)
    {
        v[i] = gen_loop(s, ctx, hostile);
        if (v[i] && i == 7)
            ctx.label("loop-slot7");
    }
    return v;
}
inline std::vector<dj::beatgrid_marker> gen_grid(S& s, Ctx& ctx, bool hostile)
{
    std::vector<dj::beatgrid_marker> g;
    size_t n;
    switch (s.below(8))
    {
        case 0:
        case 1: n = 0; break;
        case 2:
            n = 1;
            ctx.label("grid:1-marker");
            break;
        case 3: n = 2; break;
        case 4: n = (ctx.tier == "thorough" && s.below(4) == 0) ? 2000 + s.below(38000) : 3 + s.below(62); break;
        default: n = 2 + s.below(6); break;
    }
    Bulk b(s.raw());
    int idx = static_cast<int>(static_cast<int64_t>(s.below(200)) - 100);
    double off = static_cast<double>(static_cast<int64_t>(s.below(100000)) - 50000) + (s.coin() ? 0.0 : 0.375);
    for (size_t i = 0; i < n; ++i)
    {
        g.push_back({idx, off});
        int step = 1 + static_cast<int>(b.next() % 32);
        idx += step;
        off += 22050.0 * step + static_cast<double>(b.next() % 4096) / 64.0;
    }
    if (n >= 2 && s.below(hostile ? 3 : 12) == 0)
    {
        ctx.label("grid:unsorted");
        std::swap(g[0].sample_offset, g[n - 1].sample_offset);
    }
    if (n >= 2 && hostile && s.below(4) == 0)
    {
        g[0].index = INT_MIN;
        g[n - 1].index = INT_MAX;
    }
    return g;
}
inline std::optional<unsigned long long> gen_sample_count(S& s, Ctx& ctx)
{
    static const std::vector<unsigned long long> e = {0, 1, 44100ull * 180, 48000ull * 3600, (1ull << 53) + 1, 1ull << 62, (1ull << 63), ~0ull};
    switch (s.below(6))
    {
        case 0: return std::nullopt;
        case 1:
        {
            auto v = e[s.below(e.size())];
            if (v >= (1ull << 63))
                ctx.label("sample_count>=2^63");
            return v;
        }
        default: return 1000 + s.below(44100ull * 600);
    }
}
inline std::optional<double> gen_sample_rate(S& s, Ctx& ctx, bool hostile)
{
    switch (s.below(hostile ? 9 : 7))
    {
        case 0: ctx.label("sample_rate:absent"); return std::nullopt;
        case 1: return 0.0;
        case 2: return 48000.0;
        case 3: return 22050.5;
        case 4: return 96000.0;
        case 5:
        case 6: return 44100.0;
        case 7: return s.coin() ? 0.5 : 1e300;
        default: return s.coin() ? std::nan("") : -44100.0;
    }
}
inline std::vector<dj::waveform_entry> gen_waveform(S& s, Ctx& ctx, std::optional<unsigned long long> count, std::optional<double> rate)
{
    size_t n;
    switch (s.below(8))
    {
        case 0:
        case 1:
        case 2: n = 0; break;
        case 3:
        {  // the recommended high-resolution size for this track, when it is sane
            n = 0;
            if (count && rate && *rate >= 0 && *rate < 1e9 && *count < (1ull << 40))
            {
                auto ext = e::calculate_high_resolution_waveform_extents(*count, *rate);
                if (ext.size <= 200000)
                {
                    n = static_cast<size_t>(ext.size);
                    ctx.label("waveform:recommended-size");
                }
            }
            break;
        }
        case 4: n = 1; break;
        case 5: n = 7; break;
        case 6: n = 1024; break;
        default: n = s.coin() ? 1000 : (ctx.tier == "thorough" ? 5000 + s.below(95000) : 2000); break;
    }
    std::vector<dj::waveform_entry> w(n);
    Bulk b(s.raw());
    bool opaque = s.coin();
    for (auto& x : w)
    {
        uint64_t r = b.next();
        x.low = {static_cast<uint8_t>(r), static_cast<uint8_t>(opaque ? 255 : r >> 24)};
        x.mid = {static_cast<uint8_t>(r >> 8), static_cast<uint8_t>(opaque ? 255 : r >> 32)};
        x.high = {static_cast<uint8_t>(r >> 16), static_cast<uint8_t>(opaque ? 255 : r >> 40)};
    }
    if (n && !opaque)
        ctx.label("waveform:opacity");
    return w;
}
inline std::optional<std::chrono::milliseconds> gen_duration(S& s, bool hostile)
{
    static const std::vector<int64_t> e = {0, 1, 999, 1000, 1001, 59999, 60000, 3599999, 215500, -1500, 86400000LL * 365};
    switch (s.below(4))
    {
        case 0: return std::nullopt;
        case 1: return std::chrono::milliseconds{e[s.below(e.size())]};
        case 2: return std::chrono::milliseconds{static_cast<int64_t>(s.below(7200000))};
        default: return std::chrono::milliseconds{hostile ? static_cast<int64_t>(s.raw()) : static_cast<int64_t>(s.below(1ull << 40))};
    }
}
inline std::optional<std::chrono::system_clock::time_point> gen_time(S& s, bool hostile)
{
    using namespace std::chrono;
    static const std::vector<int64_t> e = {0, 1, 999, 1000, 1500, 1600000000000LL, 1600000000999LL, -1000, -1500, -86400000LL * 365 * 30, 4102444800000LL};
    system_clock::time_point tp{};
    switch (s.below(4))
    {
        case 0: return std::nullopt;
        case 1: return tp + milliseconds{e[s.below(e.size())]};
        case 2: return tp + seconds{static_cast<int64_t>(s.below(2000000000))};
        default:
        {
            int64_t ms = static_cast<int64_t>(s.below(1ull << 42)) - (1ll << 40);
            if (hostile && s.coin())
                ms = static_cast<int64_t>(s.raw() % 9000000000000ull);  // up to year 2255: still representable in system_clock's ns
            return tp + milliseconds{ms};
        }
    }
}
inline std::optional<double> gen_bpm(S& s, Ctx& ctx, bool hostile)
{
    switch (s.below(hostile ? 8 : 6))
    {
        case 0: return std::nullopt;
        case 1: return static_cast<double>(60 + s.below(140));
        case 2: ctx.label("bpm:fractional"); return 60.0 + static_cast<double>(s.below(14000)) / 100.0;
        case 3: return 0.0;
        case 4: return 128.0;
        case 5: return static_cast<double>(s.below(1000)) + 0.5;
        case 6: return s.coin() ? 1e300 : -1e300;
        default: return std::nan("");
    }
}
inline std::optional<double> gen_loudness(S& s, bool hostile)
{
    switch (s.below(hostile ? 6 : 5))
    {
        case 0: return std::nullopt;
        case 1: return 0.0;
        case 2: return 0.5;
        case 3: return static_cast<double>(1 + s.below(1000)) / 1000.0;
        case 4: return 1.0 + static_cast<double>(s.below(100));
        default: return std::nan("");
    }
}
inline std::optional<double> gen_main_cue(S& s, Ctx& ctx, bool hostile)
{
    if (s.below(4) == 0)
        return std::nullopt;
    return gen_offset(s, ctx, hostile);
}
inline std::optional<dj::musical_key> gen_key(S& s, Ctx& ctx)
{
    switch (s.below(4))
    {
        case 0: return std::nullopt;
        case 1: ctx.label("key=c_major"); return dj::musical_key::c_major;
        default: return static_cast<dj::musical_key>(s.below(24));
    }
}
inline std::string gen_path(S& s, Ctx& ctx, const GenOpts& o, int serial)
{
    static const std::vector<std::string> dirs = {"", "../Music/", "a/b/c/", "Artist - Album (2020)/", "\xc3\x9c/", "dir with spaces/"};
    static const std::vector<std::string> exts = {".mp3", ".flac", ".m4a", ".WAV", ".tar.ogg", ".aiff", ".x"};
    std::string p = dirs[s.below(dirs.size())] + "track-" + std::to_string(serial) + "-" + std::to_string(s.below(1000));
    size_t c = s.below(20);
    if (c == 0)
    {
        ctx.label("path:no-extension");
        return p;  // no extension: 2.x must reject
    }
    if (c == 1 && o.hostile)
        return "";
    return p + exts[s.below(exts.size())];
}

inline dj::track_snapshot gen_snapshot(S& s, Ctx& ctx, const GenOpts& o)
{
    dj::track_snapshot t;
    bool h = o.hostile;
    t.album = gen_text(s, ctx, h);
    t.artist = gen_text(s, ctx, h);
    t.average_loudness = gen_loudness(s, h);
    t.sample_count = gen_sample_count(s, ctx);
    t.sample_rate = gen_sample_rate(s, ctx, h);
    t.beatgrid = gen_grid(s, ctx, h);
    t.bitrate = gen_int(s, h);
    t.bpm = gen_bpm(s, ctx, h);
    t.comment = gen_text(s, ctx, h);
    t.composer = gen_text(s, ctx, h);
    t.duration = gen_duration(s, h);
    if (s.below(3) != 0)
        t.file_bytes = s.coin() ? s.below(1ull << 33) : (s.coin() ? 0ull : s.raw());
    t.genre = gen_text(s, ctx, h);
    t.hot_cues = gen_cues(s, ctx, h);
    t.key = gen_key(s, ctx);
    t.last_played_at = gen_time(s, h);
    t.loops = gen_loops(s, ctx, h);
    t.main_cue = gen_main_cue(s, ctx, h);
    t.publisher = gen_text(s, ctx, h);
    t.rating = gen_rating(s);
    if (s.below(40) == 0)
        ctx.label("path:absent");
    else
        t.relative_path = gen_path(s, ctx, o, o.serial);
    t.title = gen_text(s, ctx, h);
    t.track_number = gen_int(s, h);
    t.waveform = gen_waveform(s, ctx, t.sample_count, t.sample_rate);
    t.year = gen_int(s, h);
    return t;
}

// ------------------------------------------------------------------------------------------ expected read-back N(schema, s)
// Written from the property statements and the documented sentinel conventions (DESIGN appendix A).
inline std::vector<dj::waveform_entry> expected_waveform_v2(const std::vector<dj::waveform_entry>& w, std::optional<unsigned long long> count,
                                                             std::optional<double> rate)
{
    std::vector<dj::waveform_entry> out;
    if (w.empty())
        return out;
    // overview extents: empty when there is no audio or the rate is too low to quantise
    auto ext = e::calculate_overview_waveform_extents(count.value_or(0), rate.value_or(0));
    for (unsigned long long i = 0; i < ext.size; ++i)
    {
        auto x = w[w.size() * (2 * i + 1) / (2 * ext.size)];
        x.low.opacity = x.mid.opacity = x.high.opacity = 255;
        out.push_back(x);
    }
    return out;
}
template <class T>
std::vector<std::optional<T>> pad8(std::vector<std::optional<T>> v)
{
    if (v.size() < 8)
        v.resize(8);
    return v;
}
inline dj::track_snapshot expected(e::engine_schema schema, const dj::track_snapshot& s)
{
    using namespace std::chrono;
    bool v2 = is_v2(schema);
    dj::track_snapshot x = s;
    if (x.average_loudness && *x.average_loudness == 0)
        x.average_loudness = std::nullopt;
    if (x.duration)
    {
        x.duration = milliseconds{(x.duration->count() / 1000) * 1000};
        if (v2 && x.duration->count() == 0)
            x.duration = std::nullopt;
    }
    if (!has_file_bytes(schema))
        x.file_bytes = std::nullopt;
    x.hot_cues = pad8(x.hot_cues);
    for (auto& c : x.hot_cues)
        if (c && c->sample_offset == -1)
            c = std::nullopt;
    x.loops = pad8(x.loops);
    if (!v2)
        for (auto& c : x.loops)
            if (c && c->start_sample_offset == -1)
                c = std::nullopt;
    if (x.last_played_at)
        x.last_played_at = system_clock::time_point{duration_cast<seconds>(x.last_played_at->time_since_epoch())};
    if (x.main_cue && *x.main_cue == 0)
        x.main_cue = std::nullopt;
    if (x.rating)
    {
        x.rating = std::clamp(*x.rating, 0, 100);
        if (v2 && *x.rating == 0)
            x.rating = std::nullopt;
    }
    if (x.sample_count && *x.sample_count == 0)
        x.sample_count = std::nullopt;
    if (x.sample_rate && *x.sample_rate == 0)
        x.sample_rate = std::nullopt;
    if (v2)
        x.waveform = expected_waveform_v2(s.waveform, s.sample_count, s.sample_rate);
    return x;
}
}  // namespace api
