#include "sqlite_shim.hpp"

#include <cctype>
#include <cstring>

namespace vfshim
{
State& state()
{
    static State s;
    return s;
}
}  // namespace vfshim

static bool is_commit(const char* sql)
{
    if (!sql)
        return false;
    while (*sql && isspace(static_cast<unsigned char>(*sql)))
        ++sql;
    return strncasecmp(sql, "COMMIT", 6) == 0 || strncasecmp(sql, "END", 3) == 0;
}

static bool is_rollback(const char* sql)
{
    if (!sql)
        return false;
    while (*sql && isspace(static_cast<unsigned char>(*sql)))
        ++sql;
    return strncasecmp(sql, "ROLLBACK", 8) == 0 || strncasecmp(sql, "RELEASE", 7) == 0;
}

extern "C" int verif_sqlite3_step(sqlite3_stmt* stmt)
{
    auto& s = vfshim::state();
    s.last_db = sqlite3_db_handle(stmt);
    ++s.steps;
    bool ro = sqlite3_stmt_readonly(stmt) != 0;
    const char* sql = sqlite3_sql(stmt);
    bool commit = ro && is_commit(sql);
    if (!ro)
    {
        ++s.write_steps;
        if (s.record_sql && sql)
            s.write_sql.emplace_back(sql);
    }
    if (s.in_call && ro && !commit && !is_rollback(sql))
    {
        ++s.read_points;
        if (s.fail_at != 0 && s.fail_reads && s.read_points == s.fail_at)
        {
            s.fired = true;
            return s.fail_code;  // the statement is NOT executed / the next row is not produced
        }
    }
    if (!ro || commit)
    {
        ++s.fault_points;
        if (s.fail_at != 0 && !s.fail_reads && s.fault_points == s.fail_at)
        {
            s.fired = true;
            return s.fail_code;  // the statement is NOT executed
        }
    }
    return sqlite3_step(stmt);
}
