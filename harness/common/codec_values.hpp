// Generators, canonical renderings and layout-token mappings for the 11 blob kinds.
// Shared by codec_pbt (rapidcheck) and codec_fuzz (libFuzzer).
#pragma once
#include <djinterop/djinterop.hpp>
#include <djinterop/engine/engine.hpp>
#include <djinterop/engine/v2/beat_data_blob.hpp>
#include <djinterop/engine/v2/loops_blob.hpp>
#include <djinterop/engine/v2/overview_waveform_data_blob.hpp>
#include <djinterop/engine/v2/quick_cues_blob.hpp>
#include <djinterop/engine/v2/track_data_blob.hpp>

#include <climits>
#include <cmath>

#include "djinterop/engine/encode_decode_utils.hpp"
#include "djinterop/engine/v1/performance_data_format.hpp"
#include "pbt.hpp"
#include "refcodec/refcodec.hpp"

namespace cv
{
namespace dj = djinterop;
namespace v1 = djinterop::engine::v1;
namespace v2 = djinterop::engine::v2;
using vf::Bulk;
using vf::Ctx;
using vf::S;
using LibBytes = std::vector<std::byte>;

inline ref::Bytes to_ref(const LibBytes& b)
{
    ref::Bytes r(b.size());
    if (!b.empty())
        memcpy(r.data(), b.data(), b.size());
    return r;
}
inline LibBytes to_lib(const ref::Bytes& b)
{
    LibBytes r(b.size());
    if (!b.empty())
        memcpy(r.data(), b.data(), b.size());
    return r;
}
inline std::string hex(const void* p, size_t n, size_t cap = 48)
{
    static const char* d = "0123456789abcdef";
    std::string s;
    const unsigned char* u = static_cast<const unsigned char*>(p);
    for (size_t i = 0; i < n && i < cap; ++i)
    {
        s += d[u[i] >> 4];
        s += d[u[i] & 15];
    }
    if (n > cap)
        s += "..(" + std::to_string(n) + "B,h=" + std::to_string(vf::fnv1a(std::string(reinterpret_cast<const char*>(p), n)) % 1000000007ull) + ")";
    return s;
}
inline std::string hx(const std::string& s) { return hex(s.data(), s.size()); }
inline std::string hx(const LibBytes& s) { return hex(s.data(), s.size()); }
inline std::string dbl(double d)
{
    uint64_t u;
    memcpy(&u, &d, 8);
    char b[64];
    snprintf(b, sizeof b, "%.17g/%016llx", d, (unsigned long long)u);
    return b;
}

// ------------------------------------------------------------------------------------------ scalar generators
// whole-domain doubles (C03/C05): every bit-pattern class
inline double gen_double_any(S& s, Ctx& ctx)
{
    switch (s.below(14))
    {
        case 0: return 0.0;
        case 1: return -1.0;  // the empty-slot sentinel
        case 2: return -0.0;
        case 3: return static_cast<double>(s.below(1000));
        case 4: return static_cast<double>(s.below(1ull << 40)) + 0.5;
        case 5: return -static_cast<double>(s.below(1ull << 30)) / 3.0;
        case 6: return 4.9e-324 * static_cast<double>(1 + s.below(5));  // denormal
        case 7: return 1e300;
        case 8:
            ctx.label("double:nan");
            return s.coin() ? std::nan("") : ref::u2f(0x7ff0000000000001ull + s.below(1ull << 50));
        case 9: ctx.label("double:inf"); return s.coin() ? INFINITY : -INFINITY;
        case 10: return std::nextafter(static_cast<double>(s.below(100000)), s.coin() ? 1e308 : -1e308);
        case 11: return 44100.0 * static_cast<double>(s.below(1000));
        default: return ref::u2f(s.raw());  // arbitrary bit pattern
    }
}
// finite "realistic" doubles
inline double gen_double_fin(S& s)
{
    switch (s.below(6))
    {
        case 0: return 0.0;
        case 1: return static_cast<double>(s.below(100000));
        case 2: return static_cast<double>(s.below(1ull << 40)) / 7.0;
        case 3: return -static_cast<double>(s.below(100000)) - 0.25;
        case 4: return 1e15 + static_cast<double>(s.below(1000));
        default: return static_cast<double>(s.below(400000000)) + static_cast<double>(s.below(1000)) / 1000.0;
    }
}
inline int64_t gen_i64(S& s)
{
    static const std::vector<int64_t> e = {0, 1, -1, 2147483647LL, 2147483648LL, -2147483648LL, (1LL << 53), (1LL << 53) + 1,
                                           INT64_MAX, INT64_MIN, 44100 * 300};
    switch (s.below(3))
    {
        case 0: return e[s.below(e.size())];
        case 1: return static_cast<int64_t>(s.below(1ull << 32));
        default: return static_cast<int64_t>(s.raw());
    }
}
inline int32_t gen_i32(S& s)
{
    static const std::vector<int32_t> e = {0, 1, -1, INT_MAX, INT_MIN, 23, 24, 255, 256};
    switch (s.below(3))
    {
        case 0: return e[s.below(e.size())];
        case 1: return static_cast<int32_t>(s.below(100));
        default: return static_cast<int32_t>(static_cast<uint32_t>(s.raw()));
    }
}
// label: length classes, arbitrary bytes when `anybytes`, else UTF-8-ish printable
inline std::string gen_label(S& s, Ctx& ctx, bool allow_long, bool anybytes)
{
    static const std::vector<size_t> lens = {0, 1, 5, 12, 254, 255, 256, 300};
    size_t cls = s.below(100);
    size_t len;
    if (cls < 10)
        len = 0;
    else if (cls < 70)
        len = 1 + s.below(12);
    else if (cls < 80)
        len = 254 + s.below(2);  // 254, 255
    else if (cls < 90 && allow_long)
        len = lens[6 + s.below(2)];  // 256, 300
    else
        len = 1 + s.below(40);
    if (len == 255)
        ctx.label("label=255");
    if (len == 256)
        ctx.label("label=256");
    if (len == 300)
        ctx.label("label=300");
    Bulk b(s.raw());
    std::string out;
    out.reserve(len);
    static const char* utf[] = {"\xc3\xa9", "\xe2\x82\xac", "\xf0\x9f\x8e\xb5", "\xce\xa9"};
    while (out.size() < len)
    {
        uint64_t r = b.next();
        if (anybytes)
            out += static_cast<char>(r & 0xff);
        else if ((r & 15) == 0 && out.size() + 4 <= len)
            out += utf[(r >> 4) & 3];
        else
            out += static_cast<char>(0x20 + (r >> 8) % 0x5f);
    }
    out.resize(len);
    return out;
}
inline dj::pad_color gen_color(S& s)
{
    uint64_t r = s.raw();
    return dj::pad_color{static_cast<uint8_t>(r), static_cast<uint8_t>(r >> 8), static_cast<uint8_t>(r >> 16), static_cast<uint8_t>(r >> 24)};
}
inline LibBytes gen_extra(S& s, Ctx& ctx)
{
    size_t n = 0;
    switch (s.below(5))
    {
        case 0:
        case 1: n = 0; break;
        case 2: n = 9; break;
        case 3: n = 1 + s.below(8); break;
        default: n = s.below(65); break;
    }
    Bulk b(s.raw());
    bool zeros = s.coin();
    LibBytes out(n);
    for (auto& x : out)
        x = static_cast<std::byte>(zeros ? 0 : (b.next() & 0xff));
    if (n)
        ctx.label("extra-data");
    return out;
}
// how many repeated entries: 0..12 with emphasis on 0, 8, 9, 12
inline size_t gen_slot_count(S& s, Ctx& ctx, size_t maxn = 12)
{
    size_t n;
    switch (s.below(6))
    {
        case 0: n = 0; break;
        case 1:
        case 2: n = 8; break;
        case 3: n = 9 + s.below(maxn - 8); break;
        default: n = s.below(maxn + 1); break;
    }
    if (n == 8)
        ctx.label("entries=8");
    if (n == 9)
        ctx.label("entries=9");
    if (n == 12)
        ctx.label("entries=12");
    return n;
}
inline size_t gen_bulk_count(S& s, Ctx& ctx, const std::vector<size_t>& big)
{
    switch (s.below(8))
    {
        case 0: return 0;
        case 1: return 1;
        case 2: return 2;
        case 3: return 1024;
        case 4:
            if (ctx.tier == "thorough" || s.below(8) == 0)
            {
                ctx.label("bulk-large");
                return big[s.below(big.size())];
            }
            return 3 + s.below(60);
        default: return 3 + s.below(60);
    }
}

// ------------------------------------------------------------------------------------------ canonical renderings
inline std::string canon(const dj::pad_color& c)
{
    char b[32];
    snprintf(b, sizeof b, "%02x%02x%02x%02x", c.a, c.r, c.g, c.b);
    return b;
}
inline std::string canon(const v2::beat_grid_marker_blob& m)
{
    return "(" + dbl(m.sample_offset) + "," + std::to_string(m.beat_number) + "," + std::to_string(m.number_of_beats) + "," +
           std::to_string(m.unknown_value_1) + ")";
}
template <class V, class F>
std::string canon_vec(const V& v, F f, size_t cap = 40)
{
    std::string s = "[" + std::to_string(v.size()) + ":";
    uint64_t h = 1469598103934665603ull;
    size_t i = 0;
    for (auto& x : v)
    {
        std::string e = f(x);
        if (i++ < cap)
            s += e;
        for (unsigned char ch : e)
        {
            h ^= ch;
            h *= 1099511628211ull;
        }
    }
    if (v.size() > cap)
        s += "..";
    s += "#" + std::to_string(h % 1000000007ull) + "]";
    return s;
}
inline std::string canon(const v2::beat_data_blob& v)
{
    auto f = [](const v2::beat_grid_marker_blob& m) { return canon(m); };
    return "v2.beat{" + dbl(v.sample_rate) + "," + dbl(v.samples) + "," + std::to_string(v.is_beatgrid_set) + ",def" +
           canon_vec(v.default_beat_grid, f, 6) + ",adj" + canon_vec(v.adjusted_beat_grid, f, 6) + ",x" + hx(v.extra_data) + "}";
}
inline std::string canon(const v2::quick_cue_blob& c) { return "(" + hx(c.label) + "," + dbl(c.sample_offset) + "," + canon(c.color) + ")"; }
inline std::string canon(const v2::quick_cues_blob& v)
{
    return "v2.cues{" + canon_vec(v.quick_cues, [](const v2::quick_cue_blob& c) { return canon(c); }) + "," + dbl(v.adjusted_main_cue) + "," +
           std::to_string(v.is_main_cue_adjusted) + "," + dbl(v.default_main_cue) + ",x" + hx(v.extra_data) + "}";
}
inline std::string canon(const v2::loop_blob& l)
{
    return "(" + hx(l.label) + "," + dbl(l.start_sample_offset) + "," + dbl(l.end_sample_offset) + "," + std::to_string(l.is_start_set) + "," +
           std::to_string(l.is_end_set) + "," + canon(l.color) + ")";
}
inline std::string canon(const v2::loops_blob& v)
{
    return "v2.loops{" + canon_vec(v.loops, [](const v2::loop_blob& c) { return canon(c); }) + ",x" + hx(v.extra_data) + "}";
}
inline std::string canon(const v2::overview_waveform_point& p)
{
    char b[16];
    snprintf(b, sizeof b, "%02x%02x%02x", p.low_value, p.mid_value, p.high_value);
    return b;
}
inline std::string canon(const v2::overview_waveform_data_blob& v)
{
    return "v2.overview{" + dbl(v.samples_per_waveform_point) + "," +
           canon_vec(v.waveform_points, [](const v2::overview_waveform_point& p) { return canon(p); }, 8) + ",max" + canon(v.maximum_point) +
           ",x" + hx(v.extra_data) + "}";
}
inline std::string canon(const v2::track_data_blob& v)
{
    return "v2.track{" + dbl(v.sample_rate) + "," + std::to_string(v.samples) + "," + std::to_string(v.key) + "," + dbl(v.average_loudness_low) +
           "," + dbl(v.average_loudness_mid) + "," + dbl(v.average_loudness_high) + ",x" + hx(v.extra_data) + "}";
}
template <class T, class F>
std::string canon_opt(const std::optional<T>& o, F f)
{
    return o ? f(*o) : std::string("-");
}
inline std::string canon(const dj::beatgrid_marker& m) { return "(" + std::to_string(m.index) + "," + dbl(m.sample_offset) + ")"; }
inline std::string canon(const std::vector<dj::beatgrid_marker>& g)
{
    return canon_vec(g, [](const dj::beatgrid_marker& m) { return canon(m); }, 6);
}
inline std::string canon(const v1::beat_data& v)
{
    return "v1.beat{" + canon_opt(v.sample_rate, dbl) + "," + canon_opt(v.sample_count, dbl) + ",def" + canon(v.default_beatgrid) + ",adj" +
           canon(v.adjusted_beatgrid) + "}";
}
inline std::string canon(const dj::waveform_entry& e)
{
    char b[32];
    snprintf(b, sizeof b, "%02x%02x%02x%02x%02x%02x", e.low.value, e.mid.value, e.high.value, e.low.opacity, e.mid.opacity, e.high.opacity);
    return b;
}
inline std::string canon(const std::vector<dj::waveform_entry>& w)
{
    return canon_vec(w, [](const dj::waveform_entry& e) { return canon(e); }, 8);
}
inline std::string canon(const v1::high_res_waveform_data& v) { return "v1.highres{" + dbl(v.samples_per_entry) + "," + canon(v.waveform) + "}"; }
inline std::string canon(const v1::overview_waveform_data& v) { return "v1.overview{" + dbl(v.samples_per_entry) + "," + canon(v.waveform) + "}"; }
inline std::string canon(const dj::hot_cue& c) { return "(" + hx(c.label) + "," + dbl(c.sample_offset) + "," + canon(c.color) + ")"; }
inline std::string canon(const dj::loop& c)
{
    return "(" + hx(c.label) + "," + dbl(c.start_sample_offset) + "," + dbl(c.end_sample_offset) + "," + canon(c.color) + ")";
}
inline std::string canon(const std::vector<std::optional<dj::hot_cue>>& v)
{
    return canon_vec(v, [](const std::optional<dj::hot_cue>& c) { return c ? canon(*c) : std::string("-"); });
}
inline std::string canon(const std::vector<std::optional<dj::loop>>& v)
{
    return canon_vec(v, [](const std::optional<dj::loop>& c) { return c ? canon(*c) : std::string("-"); });
}
inline std::string canon(const v1::quick_cues_data& v)
{
    return "v1.cues{" + canon(v.hot_cues) + "," + dbl(v.adjusted_main_cue) + "," + dbl(v.default_main_cue) + "}";
}
inline std::string canon(const v1::loops_data& v) { return "v1.loops{" + canon(v.loops) + "}"; }
inline std::string canon(const v1::track_data& v)
{
    return "v1.track{" + canon_opt(v.sample_rate, dbl) + "," + canon_opt(v.sample_count, [](int64_t x) { return std::to_string(x); }) + "," +
           canon_opt(v.average_loudness, dbl) + "," + canon_opt(v.key, [](dj::musical_key k) { return std::to_string(static_cast<int>(k)); }) + "}";
}

// ------------------------------------------------------------------------------------------ value generators
struct GenOpts
{
    bool whole_domain = true;  // C03: every double class, labels > 255, > 8 entries, arbitrary bytes
    bool sorted_grids = false; // v1 decoder-valid grids only (C02.dec)
};

inline double gd(S& s, Ctx& ctx, const GenOpts& o) { return o.whole_domain ? gen_double_any(s, ctx) : gen_double_fin(s); }

inline std::vector<v2::beat_grid_marker_blob> gen_v2_grid(S& s, Ctx& ctx, const GenOpts& o)
{
    size_t n = gen_bulk_count(s, ctx, {700, 2000, 40000});
    std::vector<v2::beat_grid_marker_blob> g(n);
    Bulk b(s.raw());
    bool wild = s.below(4) == 0;
    double off = -static_cast<double>(b.next() % 100000);
    int64_t idx = -4;
    for (size_t i = 0; i < n; ++i)
    {
        if (i < 3)
        {
            g[i].sample_offset = gd(s, ctx, o);
            g[i].beat_number = gen_i64(s);
            g[i].number_of_beats = gen_i32(s);
            g[i].unknown_value_1 = gen_i32(s);
        }
        else if (wild)
        {
            g[i].sample_offset = ref::u2f(b.next());
            g[i].beat_number = static_cast<int64_t>(b.next());
            g[i].number_of_beats = static_cast<int32_t>(b.next());
            g[i].unknown_value_1 = static_cast<int32_t>(b.next());
        }
        else
        {
            int32_t step = 1 + static_cast<int32_t>(b.next() % 64);
            off += 22050.0 * step + static_cast<double>(b.next() % 1000) / 16.0;
            idx += step;
            g[i].sample_offset = off;
            g[i].beat_number = idx;
            g[i].number_of_beats = step;
            g[i].unknown_value_1 = static_cast<int32_t>(b.next() % 3);
        }
    }
    return g;
}
inline v2::beat_data_blob gen_v2_beat(S& s, Ctx& ctx, const GenOpts& o)
{
    v2::beat_data_blob v;
    v.sample_rate = gd(s, ctx, o);
    v.samples = gd(s, ctx, o);
    v.is_beatgrid_set = static_cast<uint8_t>(s.below(3) == 0 ? s.below(256) : s.below(2));
    v.default_beat_grid = gen_v2_grid(s, ctx, o);
    v.adjusted_beat_grid = s.coin() ? v.default_beat_grid : gen_v2_grid(s, ctx, o);
    v.extra_data = gen_extra(s, ctx);
    return v;
}
inline v2::quick_cues_blob gen_v2_cues(S& s, Ctx& ctx, const GenOpts& o)
{
    v2::quick_cues_blob v;
    size_t n = gen_slot_count(s, ctx, o.whole_domain ? 12 : 20);
    for (size_t i = 0; i < n; ++i)
    {
        if (s.below(3) == 0)
            v.quick_cues.push_back(v2::quick_cue_blob::empty());
        else
        {
            v2::quick_cue_blob c;
            c.label = gen_label(s, ctx, o.whole_domain, true);
            c.sample_offset = gd(s, ctx, o);
            c.color = gen_color(s);
            v.quick_cues.push_back(c);
        }
    }
    v.adjusted_main_cue = gd(s, ctx, o);
    v.is_main_cue_adjusted = s.coin();
    v.default_main_cue = s.coin() ? v.adjusted_main_cue : gd(s, ctx, o);
    v.extra_data = gen_extra(s, ctx);
    return v;
}
inline v2::loops_blob gen_v2_loops(S& s, Ctx& ctx, const GenOpts& o)
{
    v2::loops_blob v;
    size_t n = gen_slot_count(s, ctx, o.whole_domain ? 12 : 20);
    for (size_t i = 0; i < n; ++i)
    {
        if (s.below(3) == 0)
            v.loops.push_back(v2::loop_blob::empty());
        else
        {
            v2::loop_blob c;
            c.label = gen_label(s, ctx, o.whole_domain, true);
            c.start_sample_offset = gd(s, ctx, o);
            c.end_sample_offset = gd(s, ctx, o);
            c.is_start_set = static_cast<uint8_t>(s.below(3) == 0 ? s.below(256) : s.below(2));
            c.is_end_set = static_cast<uint8_t>(s.below(3) == 0 ? s.below(256) : s.below(2));
            c.color = gen_color(s);
            v.loops.push_back(c);
        }
    }
    v.extra_data = gen_extra(s, ctx);
    return v;
}
inline v2::overview_waveform_data_blob gen_v2_overview(S& s, Ctx& ctx, const GenOpts& o)
{
    v2::overview_waveform_data_blob v;
    v.samples_per_waveform_point = gd(s, ctx, o);
    size_t n = gen_bulk_count(s, ctx, {5000, 20000, 100000});
    v.waveform_points.resize(n);
    Bulk b(s.raw());
    for (auto& p : v.waveform_points)
    {
        uint64_t r = b.next();
        p = {static_cast<uint8_t>(r), static_cast<uint8_t>(r >> 8), static_cast<uint8_t>(r >> 16)};
    }
    uint64_t r = s.raw();
    v.maximum_point = {static_cast<uint8_t>(r), static_cast<uint8_t>(r >> 8), static_cast<uint8_t>(r >> 16)};
    v.extra_data = gen_extra(s, ctx);
    return v;
}
inline v2::track_data_blob gen_v2_track(S& s, Ctx& ctx, const GenOpts& o)
{
    v2::track_data_blob v{};
    v.sample_rate = gd(s, ctx, o);
    v.samples = gen_i64(s);
    v.key = gen_i32(s);
    v.average_loudness_low = gd(s, ctx, o);
    v.average_loudness_mid = gd(s, ctx, o);
    v.average_loudness_high = gd(s, ctx, o);
    v.extra_data = gen_extra(s, ctx);
    return v;
}

// 1.x: "zero means none" fields are generated absent instead of present-zero (format cannot tell them apart)
inline std::optional<double> gen_opt_nonzero(S& s, Ctx& ctx, const GenOpts& o)
{
    if (s.below(4) == 0)
        return std::nullopt;
    double d = gd(s, ctx, o);
    if (d == 0)  // +0 and -0
        return std::nullopt;
    return d;
}
inline std::vector<dj::beatgrid_marker> gen_v1_grid(S& s, Ctx& ctx, const GenOpts& o)
{
    std::vector<dj::beatgrid_marker> g;
    int shape = o.sorted_grids ? static_cast<int>(s.below(3)) : static_cast<int>(s.below(8));
    Bulk b(s.raw());
    auto sorted = [&](size_t n)
    {
        int idx = static_cast<int>(static_cast<int64_t>(s.below(2000)) - 1000);
        double off = static_cast<double>(static_cast<int64_t>(s.below(200000)) - 100000);
        for (size_t i = 0; i < n; ++i)
        {
            g.push_back({idx, off});
            int step = 1 + static_cast<int>(b.next() % 64);
            idx += step;
            off += 22050.0 * step + static_cast<double>(b.next() % 1000) / 16.0;
        }
    };
    switch (shape)
    {
        case 0: break;  // empty
        case 1: sorted(2); break;
        case 2: sorted(2 + s.below(63)); break;
        case 3:
            ctx.label("grid:1-marker");
            g.push_back({static_cast<int>(gen_i32(s)), gd(s, ctx, o)});
            break;
        case 4:
        {  // out of order / duplicates
            ctx.label("grid:unsorted");
            sorted(2 + s.below(10));
            size_t i = s.below(g.size()), j = s.below(g.size());
            if (s.coin())
                std::swap(g[i].index, g[j].index);
            else
                std::swap(g[i].sample_offset, g[j].sample_offset);
            if (i == j)
                g.push_back(g.back());
            break;
        }
        case 5:
            if (ctx.tier == "thorough" || s.below(6) == 0)
            {
                ctx.label("grid:>32768");
                sorted(32769 + s.below(8000));
            }
            else
                sorted(3 + s.below(200));
            break;
        case 6:
        {  // extreme indices (difference may not fit the 32-bit beats-to-next field)
            ctx.label("grid:extreme-index");
            int a = static_cast<int>(gen_i32(s)), c = static_cast<int>(gen_i32(s));
            if (a > c)
                std::swap(a, c);
            g.push_back({a, 0.0});
            g.push_back({c, 1000.0});
            break;
        }
        default:
        {  // arbitrary doubles as offsets
            size_t n = 2 + s.below(4);
            int idx = 0;
            for (size_t i = 0; i < n; ++i)
            {
                g.push_back({idx, gd(s, ctx, o)});
                idx += 1 + static_cast<int>(s.below(8));
            }
            break;
        }
    }
    return g;
}
inline v1::beat_data gen_v1_beat(S& s, Ctx& ctx, const GenOpts& o)
{
    v1::beat_data v;
    v.sample_rate = gen_opt_nonzero(s, ctx, o);
    v.sample_count = gen_opt_nonzero(s, ctx, o);
    v.default_beatgrid = gen_v1_grid(s, ctx, o);
    v.adjusted_beatgrid = s.coin() ? v.default_beatgrid : gen_v1_grid(s, ctx, o);
    return v;
}
inline std::vector<dj::waveform_entry> gen_waveform(S& s, Ctx& ctx, const std::vector<size_t>& big)
{
    size_t n = gen_bulk_count(s, ctx, big);
    std::vector<dj::waveform_entry> w(n);
    Bulk b(s.raw());
    bool opaque = s.coin();
    for (auto& e : w)
    {
        uint64_t r = b.next();
        e.low = {static_cast<uint8_t>(r), static_cast<uint8_t>(opaque ? 255 : r >> 24)};
        e.mid = {static_cast<uint8_t>(r >> 8), static_cast<uint8_t>(opaque ? 255 : r >> 32)};
        e.high = {static_cast<uint8_t>(r >> 16), static_cast<uint8_t>(opaque ? 255 : r >> 40)};
    }
    return w;
}
inline v1::high_res_waveform_data gen_v1_highres(S& s, Ctx& ctx, const GenOpts& o)
{
    v1::high_res_waveform_data v;
    v.samples_per_entry = gd(s, ctx, o);
    v.waveform = gen_waveform(s, ctx, {5000, 20000, 100000});
    return v;
}
inline v1::overview_waveform_data gen_v1_overview(S& s, Ctx& ctx, const GenOpts& o)
{
    v1::overview_waveform_data v;
    v.samples_per_entry = gd(s, ctx, o);
    v.waveform = gen_waveform(s, ctx, {5000, 20000, 100000});
    // the overview layout has no opacity bytes: opacity is not part of this codec's value domain
    for (auto& e : v.waveform)
        e.low.opacity = e.mid.opacity = e.high.opacity = 255;
    return v;
}
inline v1::quick_cues_data gen_v1_cues(S& s, Ctx& ctx, const GenOpts& o)
{
    v1::quick_cues_data v;
    size_t n = gen_slot_count(s, ctx, o.whole_domain ? 12 : 20);
    for (size_t i = 0; i < n; ++i)
    {
        if (s.below(3) == 0)
            v.hot_cues.push_back(std::nullopt);
        else
        {
            dj::hot_cue c;
            c.label = gen_label(s, ctx, o.whole_domain, true);
            c.sample_offset = gd(s, ctx, o);
            c.color = gen_color(s);
            v.hot_cues.push_back(c);
        }
    }
    v.adjusted_main_cue = gd(s, ctx, o);
    v.default_main_cue = s.coin() ? v.adjusted_main_cue : gd(s, ctx, o);
    return v;
}
inline v1::loops_data gen_v1_loops(S& s, Ctx& ctx, const GenOpts& o)
{
    v1::loops_data v;
    size_t n = gen_slot_count(s, ctx, o.whole_domain ? 12 : 20);
    for (size_t i = 0; i < n; ++i)
    {
        if (s.below(3) == 0)
            v.loops.push_back(std::nullopt);
        else
        {
            dj::loop c;
            c.label = gen_label(s, ctx, o.whole_domain, true);
            c.start_sample_offset = gd(s, ctx, o);
            c.end_sample_offset = gd(s, ctx, o);
            c.color = gen_color(s);
            v.loops.push_back(c);
        }
    }
    return v;
}
inline v1::track_data gen_v1_track(S& s, Ctx& ctx, const GenOpts& o)
{
    v1::track_data v;
    v.sample_rate = gen_opt_nonzero(s, ctx, o);
    if (s.below(4) != 0)
    {
        int64_t c = gen_i64(s);
        if (c != 0)
            v.sample_count = c;
    }
    v.average_loudness = gen_opt_nonzero(s, ctx, o);
    if (s.below(4) != 0)
    {
        int k = 1 + static_cast<int>(s.below(23));  // c_major = 0 is the blob's "no key" value; the API keeps it in MetaDataInteger
        v.key = static_cast<dj::musical_key>(k);
    }
    return v;
}

// ------------------------------------------------------------------------------------------ value -> layout tokens
// (harness's own statement of DESIGN appendix B; nothing here comes from the library's encoders)
using ref::sc;
using ref::st;
using ref::Toks;
inline std::string bytes_str(const LibBytes& b) { return std::string(reinterpret_cast<const char*>(b.data()), b.size()); }
inline uint64_t i2u(int64_t v) { return static_cast<uint64_t>(v); }

inline void push_v2_grid(Toks& t, const std::vector<v2::beat_grid_marker_blob>& g)
{
    t.push_back(sc(g.size()));
    for (auto& m : g)
    {
        t.push_back(sc(ref::f2u(m.sample_offset)));
        t.push_back(sc(i2u(m.beat_number)));
        t.push_back(sc(i2u(m.number_of_beats)));
        t.push_back(sc(i2u(m.unknown_value_1)));
    }
}
inline Toks toks(const v2::beat_data_blob& v)
{
    Toks t{sc(ref::f2u(v.sample_rate)), sc(ref::f2u(v.samples)), sc(v.is_beatgrid_set)};
    push_v2_grid(t, v.default_beat_grid);
    push_v2_grid(t, v.adjusted_beat_grid);
    t.push_back(st(bytes_str(v.extra_data)));
    return t;
}
inline Toks toks(const v2::quick_cues_blob& v, int flag_byte = -1)
{
    Toks t{sc(v.quick_cues.size())};
    for (auto& c : v.quick_cues)
    {
        t.push_back(st(c.label));
        t.push_back(sc(ref::f2u(c.sample_offset)));
        t.push_back(sc(c.color.a));
        t.push_back(sc(c.color.r));
        t.push_back(sc(c.color.g));
        t.push_back(sc(c.color.b));
    }
    t.push_back(sc(ref::f2u(v.adjusted_main_cue)));
    t.push_back(sc(flag_byte >= 0 ? static_cast<uint64_t>(flag_byte) : (v.is_main_cue_adjusted ? 1 : 0)));
    t.push_back(sc(ref::f2u(v.default_main_cue)));
    t.push_back(st(bytes_str(v.extra_data)));
    return t;
}
inline Toks toks(const v2::loops_blob& v)
{
    Toks t{sc(v.loops.size())};
    for (auto& c : v.loops)
    {
        t.push_back(st(c.label));
        t.push_back(sc(ref::f2u(c.start_sample_offset)));
        t.push_back(sc(ref::f2u(c.end_sample_offset)));
        t.push_back(sc(c.is_start_set));
        t.push_back(sc(c.is_end_set));
        t.push_back(sc(c.color.a));
        t.push_back(sc(c.color.r));
        t.push_back(sc(c.color.g));
        t.push_back(sc(c.color.b));
    }
    t.push_back(st(bytes_str(v.extra_data)));
    return t;
}
inline Toks toks(const v2::overview_waveform_data_blob& v)
{
    Toks t{sc(v.waveform_points.size()), sc(v.waveform_points.size()), sc(ref::f2u(v.samples_per_waveform_point))};
    for (auto& p : v.waveform_points)
    {
        t.push_back(sc(p.low_value));
        t.push_back(sc(p.mid_value));
        t.push_back(sc(p.high_value));
    }
    t.push_back(sc(v.maximum_point.low_value));
    t.push_back(sc(v.maximum_point.mid_value));
    t.push_back(sc(v.maximum_point.high_value));
    t.push_back(st(bytes_str(v.extra_data)));
    return t;
}
inline Toks toks(const v2::track_data_blob& v)
{
    return Toks{sc(ref::f2u(v.sample_rate)), sc(i2u(v.samples)), sc(i2u(v.key)), sc(ref::f2u(v.average_loudness_low)),
                sc(ref::f2u(v.average_loudness_mid)), sc(ref::f2u(v.average_loudness_high)), st(bytes_str(v.extra_data))};
}
// 1.x: what the documented layout holds for a logical value (flag 1, unknown 0, beats_to_next = index difference)
inline void push_v1_grid(Toks& t, const std::vector<dj::beatgrid_marker>& g)
{
    t.push_back(sc(g.size()));
    for (size_t i = 0; i < g.size(); ++i)
    {
        t.push_back(sc(ref::f2u(g[i].sample_offset)));
        t.push_back(sc(i2u(g[i].index)));
        int64_t diff = i + 1 < g.size() ? static_cast<int64_t>(g[i + 1].index) - g[i].index : 0;
        t.push_back(sc(i2u(static_cast<int32_t>(diff))));
        t.push_back(sc(0));
    }
}
// zlib_compress / zlib_uncompress work in 16384-byte chunks: now and then pad the trailing data of a 2.x value so that the uncompressed
// payload ends exactly on, one byte before or one byte after a chunk boundary (1-3 chunks).  No-op for kinds without trailing data.
template <class V>
inline void chunk_align(int, V&, S&, Ctx&)
{
}
template <class V>
inline void chunk_align_extra(int kind, V& v, S& s, Ctx& ctx)
{
    if (s.below(10) != 9)
        return;
    size_t cur;
    try
    {
        cur = ref::write_payload(ref::layout(kind), toks(v)).size();
    }
    catch (const ref::Malformed&)
    {
        return;
    }
    size_t k = 1 + s.below(3);
    int delta = static_cast<int>(s.below(3)) - 1;
    while (k * 16384 + delta < cur)
        ++k;
    size_t add = k * 16384 + delta - cur;
    Bulk b(s.raw());
    bool zeros = s.coin();
    for (size_t i = 0; i < add; ++i)
        v.extra_data.push_back(static_cast<std::byte>(zeros ? 0 : (b.next() & 0xff)));
    ctx.label(delta == 0 ? "payload=chunk-multiple" : delta < 0 ? "payload=chunk-multiple-1" : "payload=chunk-multiple+1");
}
inline void chunk_align(int k, v2::beat_data_blob& v, S& s, Ctx& c) { chunk_align_extra(k, v, s, c); }
inline void chunk_align(int k, v2::quick_cues_blob& v, S& s, Ctx& c) { chunk_align_extra(k, v, s, c); }
inline void chunk_align(int k, v2::overview_waveform_data_blob& v, S& s, Ctx& c) { chunk_align_extra(k, v, s, c); }
inline void chunk_align(int k, v2::track_data_blob& v, S& s, Ctx& c) { chunk_align_extra(k, v, s, c); }

inline Toks toks(const v1::beat_data& v)
{
    Toks t{sc(ref::f2u(v.sample_rate.value_or(0))), sc(ref::f2u(v.sample_count.value_or(0))), sc(1)};
    push_v1_grid(t, v.default_beatgrid);
    push_v1_grid(t, v.adjusted_beatgrid);
    t.push_back(st(""));
    return t;
}
inline Toks toks(const v1::high_res_waveform_data& v)
{
    Toks t{sc(v.waveform.size()), sc(v.waveform.size()), sc(ref::f2u(v.samples_per_entry))};
    uint8_t mx[6] = {0, 0, 0, 0, 0, 0};
    for (auto& e : v.waveform)
    {
        uint8_t f[6] = {e.low.value, e.mid.value, e.high.value, e.low.opacity, e.mid.opacity, e.high.opacity};
        for (int i = 0; i < 6; ++i)
        {
            t.push_back(sc(f[i]));
            mx[i] = std::max(mx[i], f[i]);
        }
    }
    for (int i = 0; i < 6; ++i)
        t.push_back(sc(mx[i]));
    return t;
}
inline Toks toks(const v1::overview_waveform_data& v)
{
    Toks t{sc(v.waveform.size()), sc(v.waveform.size()), sc(ref::f2u(v.samples_per_entry))};
    uint8_t mx[3] = {0, 0, 0};
    for (auto& e : v.waveform)
    {
        uint8_t f[3] = {e.low.value, e.mid.value, e.high.value};
        for (int i = 0; i < 3; ++i)
        {
            t.push_back(sc(f[i]));
            mx[i] = std::max(mx[i], f[i]);
        }
    }
    for (int i = 0; i < 3; ++i)
        t.push_back(sc(mx[i]));
    return t;
}
inline Toks toks(const v1::quick_cues_data& v)
{
    Toks t{sc(v.hot_cues.size())};
    for (auto& c : v.hot_cues)
    {
        if (c)
        {
            t.push_back(st(c->label));
            t.push_back(sc(ref::f2u(c->sample_offset)));
            t.push_back(sc(c->color.a));
            t.push_back(sc(c->color.r));
            t.push_back(sc(c->color.g));
            t.push_back(sc(c->color.b));
        }
        else
        {
            t.push_back(st(""));
            t.push_back(sc(ref::f2u(-1.0)));
            for (int i = 0; i < 4; ++i)
                t.push_back(sc(0));
        }
    }
    t.push_back(sc(ref::f2u(v.adjusted_main_cue)));
    t.push_back(sc(v.adjusted_main_cue != v.default_main_cue ? 1 : 0));
    t.push_back(sc(ref::f2u(v.default_main_cue)));
    return t;
}
inline Toks toks(const v1::loops_data& v)
{
    Toks t{sc(v.loops.size())};
    for (auto& c : v.loops)
    {
        if (c)
        {
            t.push_back(st(c->label));
            t.push_back(sc(ref::f2u(c->start_sample_offset)));
            t.push_back(sc(ref::f2u(c->end_sample_offset)));
            t.push_back(sc(1));
            t.push_back(sc(1));
            t.push_back(sc(c->color.a));
            t.push_back(sc(c->color.r));
            t.push_back(sc(c->color.g));
            t.push_back(sc(c->color.b));
        }
        else
        {
            t.push_back(st(""));
            t.push_back(sc(ref::f2u(-1.0)));
            t.push_back(sc(ref::f2u(-1.0)));
            for (int i = 0; i < 6; ++i)
                t.push_back(sc(0));
        }
    }
    return t;
}
inline Toks toks(const v1::track_data& v)
{
    return Toks{sc(ref::f2u(v.sample_rate.value_or(0))), sc(i2u(v.sample_count.value_or(0))), sc(ref::f2u(v.average_loudness.value_or(0))),
                sc(i2u(v.key ? static_cast<int32_t>(*v.key) : 0))};
}

// 1.x read-back projection: the only permitted loss (property C03) — a cue/loop whose offset is -1 reads back absent
inline v1::quick_cues_data project(v1::quick_cues_data v)
{
    for (auto& c : v.hot_cues)
        if (c && c->sample_offset == -1)
            c = std::nullopt;
    return v;
}
inline v1::loops_data project(v1::loops_data v)
{
    for (auto& c : v.loops)
        if (c && c->start_sample_offset == -1)
            c = std::nullopt;
    return v;
}
template <class T>
T project(T v)
{
    return v;
}

inline std::string toks_str(const Toks& t, size_t cap = 60)
{
    std::string s;
    for (size_t i = 0; i < t.size() && i < cap; ++i)
    {
        if (t[i].str)
            s += "'" + hx(t[i].s) + "' ";
        else
        {
            char b[32];
            snprintf(b, sizeof b, "%llx ", (unsigned long long)t[i].v);
            s += b;
        }
    }
    if (t.size() > cap)
        s += "..(" + std::to_string(t.size()) + " tokens)";
    return s;
}
inline size_t first_diff(const Toks& a, const Toks& b)
{
    size_t i = 0;
    while (i < a.size() && i < b.size() && a[i] == b[i])
        ++i;
    return i;
}
}  // namespace cv
