// Schema-level properties: C12 (created library = reference schema), C13 (exact detection), C17 (verify() reports deviations).
#include "common/bigalloc.hpp"
#include "api_persist.hpp"

#include <dirent.h>
#include <regex>

using namespace api;

// the 18 supported schemas plus 3.0.0, which has a creator and a validator although supported_schemas does not list it
static const std::vector<e::engine_schema>& schemas_ext()
{
    static std::vector<e::engine_schema> v = [] {
        auto x = schemas();
        x.push_back(e::engine_schema::schema_3_0_0);
        return x;
    }();
    return v;
}

static std::string repo_dir()
{
    const char* r = getenv("VERIF_REPO");
    return r ? r : "/repo";
}

// ---------------------------------------------------------------------------------------------- own SQLite helpers (read/write)
struct RawDb
{
    sqlite3* db = nullptr;
    explicit RawDb(const std::string& file, bool rw = true)
    {
        int rc = sqlite3_open_v2(file.c_str(), &db, rw ? (SQLITE_OPEN_READWRITE | SQLITE_OPEN_CREATE) : SQLITE_OPEN_READONLY, nullptr);
        if (rc != SQLITE_OK)
            throw std::runtime_error("cannot open " + file);
    }
    ~RawDb()
    {
        if (db)
            sqlite3_close(db);
    }
    RawDb(const RawDb&) = delete;
    bool exec(const std::string& sql, std::string* err = nullptr)
    {
        char* e = nullptr;
        int rc = sqlite3_exec(db, sql.c_str(), nullptr, nullptr, &e);
        if (e)
        {
            if (err)
                *err = e;
            sqlite3_free(e);
        }
        return rc == SQLITE_OK;
    }
};
static std::vector<std::vector<std::string>> rows(sqlite3* db, const std::string& sql)
{
    std::vector<std::vector<std::string>> out;
    sqlite3_stmt* st = nullptr;
    if (sqlite3_prepare_v2(db, sql.c_str(), -1, &st, nullptr) != SQLITE_OK)
        throw std::runtime_error("prepare failed: " + sql + ": " + sqlite3_errmsg(db));
    while (sqlite3_step(st) == SQLITE_ROW)
    {
        std::vector<std::string> r;
        for (int i = 0; i < sqlite3_column_count(st); ++i)
        {
            const unsigned char* t = sqlite3_column_text(st, i);
            r.push_back(t ? reinterpret_cast<const char*>(t) : "\x01NULL");
        }
        out.push_back(std::move(r));
    }
    sqlite3_finalize(st);
    return out;
}
static std::string slurp(const std::string& path)
{
    std::ifstream f(path, std::ios::binary);
    std::stringstream ss;
    ss << f.rdbuf();
    return ss.str();
}

// ---------------------------------------------------------------------------------------------- DDL normalisation (C12)
// strips identifier quoting, collapses whitespace, drops whitespace next to punctuation. Nothing else.
static std::string normalise(const std::string& sql)
{
    std::string a;
    for (char ch : sql)
        if (ch != '[' && ch != ']' && ch != '"' && ch != '`')
            a += ch;
    std::string b;
    bool sp = false;
    for (char ch : a)
    {
        if (ch == ' ' || ch == '\t' || ch == '\n' || ch == '\r')
        {
            sp = true;
            continue;
        }
        if (sp && !b.empty())
            b += ' ';
        sp = false;
        b += ch;
    }
    static const std::string punct = "(),;=<>";
    std::string c;
    for (size_t i = 0; i < b.size(); ++i)
    {
        if (b[i] == ' ')
        {
            bool prev_p = !c.empty() && punct.find(c.back()) != std::string::npos;
            bool next_p = i + 1 < b.size() && punct.find(b[i + 1]) != std::string::npos;
            if (prev_p || next_p)
                continue;
        }
        c += b[i];
    }
    return c;
}
using Items = std::multiset<std::string>;
static Items master_items(sqlite3* db, const std::string& schema_prefix)
{
    Items it;
    for (auto& r : rows(db, "SELECT type, name, tbl_name, sql FROM " + schema_prefix + "sqlite_master WHERE name NOT LIKE 'sqlite_%'"))
        it.insert(r[0] + "|" + r[1] + "|" + r[2] + "|" + (r[3] == "\x01NULL" ? "" : normalise(r[3])));
    return it;
}
static std::string items_diff(const Items& created, const Items& ref)
{
    std::string s;
    int n = 0;
    for (auto& x : created)
        if (!ref.count(x) && n++ < 4)
            s += "\n      only in created:   " + x.substr(0, 400);
    n = 0;
    for (auto& x : ref)
        if (!created.count(x) && n++ < 4)
            s += "\n      only in reference: " + x.substr(0, 400);
    return s;
}

// ---------------------------------------------------------------------------------------------- the 18 supported triples (literal table)
struct Triple
{
    int maj, min, pat;
};
static const std::vector<std::pair<e::engine_schema, Triple>>& supported_triples()
{
    using es = e::engine_schema;
    static const std::vector<std::pair<es, Triple>> t = {
        {es::schema_1_6_0, {1, 6, 0}},   {es::schema_1_7_1, {1, 7, 1}},   {es::schema_1_9_1, {1, 9, 1}},          {es::schema_1_11_1, {1, 11, 1}},
        {es::schema_1_13_0, {1, 13, 0}}, {es::schema_1_13_1, {1, 13, 1}}, {es::schema_1_13_2, {1, 13, 2}},        {es::schema_1_15_0, {1, 15, 0}},
        {es::schema_1_17_0, {1, 17, 0}}, {es::schema_1_18_0_desktop, {1, 18, 0}}, {es::schema_1_18_0_os, {1, 18, 0}}, {es::schema_2_18_0, {2, 18, 0}},
        {es::schema_2_20_1, {2, 20, 1}}, {es::schema_2_20_2, {2, 20, 2}}, {es::schema_2_20_3, {2, 20, 3}},        {es::schema_2_21_0, {2, 21, 0}},
        {es::schema_2_21_1, {2, 21, 1}}, {es::schema_2_21_2, {2, 21, 2}}};
    return t;
}
// the same plus 3.0.0 (used where created libraries of every schema with a creator are examined: C12, C17)
static const std::vector<std::pair<e::engine_schema, Triple>>& creatable_triples()
{
    static const std::vector<std::pair<e::engine_schema, Triple>> t = [] {
        auto x = supported_triples();
        x.push_back({e::engine_schema::schema_3_0_0, {3, 0, 0}});
        return x;
    }();
    return t;
}
static Triple triple_of(e::engine_schema s)
{
    for (auto& kv : creatable_triples())
        if (kv.first == s)
            return kv.second;
    return {0, 0, 0};
}

// ---------------------------------------------------------------------------------------------- reference dumps
struct RefDump
{
    std::string name;       // e.g. sc5000/firmware-1.6.0
    bool database2 = false;
    Triple version{0, 0, 0};
    std::optional<e::engine_schema> schema;
    Items m_items, p_items;
    std::string script_dir;
};
static std::vector<std::string> list_dir(const std::string& d)
{
    std::vector<std::string> v;
    if (DIR* dir = opendir(d.c_str()))
    {
        while (dirent* en = readdir(dir))
            if (en->d_name[0] != '.')
                v.push_back(en->d_name);
        closedir(dir);
    }
    std::sort(v.begin(), v.end());
    return v;
}
static const std::vector<RefDump>& refs()
{
    static std::vector<RefDump> all = [] {
        std::vector<RefDump> out;
        std::string base = repo_dir() + "/testdata/ref/engine";
        for (auto& fam : list_dir(base))
            for (auto& ver : list_dir(base + "/" + fam))
            {
                RefDump rd;
                rd.name = fam + "/" + ver;
                rd.script_dir = base + "/" + fam + "/" + ver;
                std::string m1 = rd.script_dir + "/m.db.sql", m2 = rd.script_dir + "/Database2/m.db.sql", p1 = rd.script_dir + "/p.db.sql";
                bool has1 = fs::exists(m1), has2 = fs::exists(m2);
                if (!has1 && !has2)
                    continue;
                rd.database2 = has2;
                RawDb m(":memory:");
                std::string err;
                if (!m.exec(slurp(has2 ? m2 : m1), &err))
                    throw std::runtime_error("cannot hydrate " + rd.name + ": " + err);
                auto info = rows(m.db, "SELECT schemaVersionMajor, schemaVersionMinor, schemaVersionPatch FROM Information");
                if (info.size() != 1)
                    throw std::runtime_error("reference " + rd.name + " has no Information row");
                rd.version = {std::stoi(info[0][0]), std::stoi(info[0][1]), std::stoi(info[0][2])};
                rd.m_items = master_items(m.db, "");
                if (!has2 && fs::exists(p1))
                {
                    RawDb p(":memory:");
                    if (!p.exec(slurp(p1), &err))
                        throw std::runtime_error("cannot hydrate p.db of " + rd.name + ": " + err);
                    rd.p_items = master_items(p.db, "");
                }
                // assignment to a schema: by the dump's own Information row; the two 1.18.0 variants by product line
                for (auto& kv : creatable_triples())
                {
                    if (kv.second.maj != rd.version.maj || kv.second.min != rd.version.min || kv.second.pat != rd.version.pat)
                        continue;
                    if (is_v2(kv.first) != rd.database2)
                        continue;
                    if (kv.first == e::engine_schema::schema_1_18_0_desktop && fam == "sc5000")
                        continue;
                    if (kv.first == e::engine_schema::schema_1_18_0_os && fam != "sc5000")
                        continue;
                    rd.schema = kv.first;
                }
                out.push_back(std::move(rd));
            }
        return out;
    }();
    return all;
}

// ------------------------------------------------------------------------------------------------------ C12
// enumerated: case i = (schema i / 2, form i % 2)
static void prop_c12(const vf::Case& c, Ctx& ctx)
{
    uint64_t i = c[0].empty() ? 0 : c[0][0];
    auto schema = schemas_ext()[(i / 2) % schemas_ext().size()];
    bool on_disk = (i % 2) == 0;
    bool v2 = is_v2(schema);
    ctx.label("schema=" + sname(schema));
    ctx.label(on_disk ? "form=on-disk" : "form=temporary");
    ctx.describe = "schema " + sname(schema) + (on_disk ? " created on disk" : " created as temporary database");
    ctx.key = ctx.describe;
    std::vector<const RefDump*> mine;
    for (auto& r : refs())
        if (r.schema && *r.schema == schema)
            mine.push_back(&r);
    ScratchDir sd;
    Items m_items, p_items;
    Triple stored{0, 0, 0};
    std::string where = ctx.describe;
    {
        dj::database db = on_disk ? e::create_database(sd.lib(), schema) : e::create_temporary_database(schema);
        VF_CHECK(db.version_name() == sname(schema), where << ": version_name() = " << db.version_name());
        try
        {
            db.verify();
        }
        catch (const std::exception& ex)
        {
            VF_CHECK(false, where << ": verify() fails on a freshly created library: " << ex.what());
        }
        if (!on_disk)
        {
            (void)db.uuid();  // make the library step a statement so that the shim knows its connection
            sqlite3* conn = vfshim::state().last_db;
            VF_CHECK(conn != nullptr, where << ": no connection seen by the shim");
            m_items = master_items(conn, v2 ? "" : "music.");
            if (!v2)
                p_items = master_items(conn, "perfdata.");
            auto info = rows(conn, std::string("SELECT schemaVersionMajor, schemaVersionMinor, schemaVersionPatch FROM ") + (v2 ? "" : "music.") + "Information");
            VF_CHECK(info.size() == 1, where << ": Information has " << info.size() << " rows");
            stored = {std::stoi(info[0][0]), std::stoi(info[0][1]), std::stoi(info[0][2])};
            if (!v2)
            {
                auto pinfo = rows(conn, "SELECT schemaVersionMajor, schemaVersionMinor, schemaVersionPatch FROM perfdata.Information");
                VF_CHECK(pinfo.size() == 1 && pinfo[0] == info[0], where << ": perfdata.Information carries a different version than music.Information");
            }
        }
    }
    if (on_disk)
    {
        RawDb m(v2 ? sd.lib() + "/Database2/m.db" : sd.lib() + "/m.db", false);
        m_items = master_items(m.db, "");
        auto info = rows(m.db, "SELECT schemaVersionMajor, schemaVersionMinor, schemaVersionPatch FROM Information");
        VF_CHECK(info.size() == 1, where << ": Information has " << info.size() << " rows");
        stored = {std::stoi(info[0][0]), std::stoi(info[0][1]), std::stoi(info[0][2])};
        if (!v2)
        {
            RawDb p(sd.lib() + "/p.db", false);
            p_items = master_items(p.db, "");
            auto pinfo = rows(p.db, "SELECT schemaVersionMajor, schemaVersionMinor, schemaVersionPatch FROM Information");
            VF_CHECK(pinfo.size() == 1 && pinfo[0] == info[0], where << ": p.db carries a different version than m.db");
        }
        // recognised on load as the version requested
        e::engine_schema loaded{};
        dj::database db = e::load_database(sd.lib(), loaded);
        VF_CHECK(loaded == schema, where << ": reloaded as " << sname(loaded));
        db.verify();
    }
    Triple want = triple_of(schema);
    VF_CHECK(stored.maj == want.maj && stored.min == want.min && stored.pat == want.pat,
             where << ": stored version " << stored.maj << "." << stored.min << "." << stored.pat << ", expected " << want.maj << "." << want.min << "." << want.pat);
    if (mine.empty())
    {
        ctx.label("no-reference");
        return;
    }
    ctx.nontrivial = true;
    bool matched = false;
    std::string best;
    for (auto* r : mine)
    {
        bool ok = r->m_items == m_items && (v2 || r->p_items.empty() || r->p_items == p_items);
        if (ok)
            matched = true;
        else if (best.empty())
            best = "vs " + r->name + ":" + items_diff(m_items, r->m_items) + (v2 ? "" : items_diff(p_items, r->p_items));
    }
    if (mine.size() > 1)
        ctx.label("several-references");
    VF_CHECK(matched, where << ": sqlite_master differs from every reference dump of this version (" << mine.size() << " dump(s)); " << best);
}

// the normaliser is itself tested: equal under re-spacing / re-quoting, unequal under token deletion / substitution
static void prop_c12_norm(const vf::Case& c, Ctx& ctx)
{
    S s(c[0]);
    auto& all = refs();
    const RefDump& r = all[s.below(all.size())];
    std::vector<std::string> items(r.m_items.begin(), r.m_items.end());
    std::string item = items[s.below(items.size())];
    std::string sql = item.substr(item.rfind('|') + 1);
    if (sql.size() < 20)
        return;
    // tokenise the normalised DDL on spaces and punctuation
    std::vector<std::string> toks;
    std::string cur;
    for (char ch : sql)
    {
        if (ch == ' ' || std::string("(),;=<>").find(ch) != std::string::npos)
        {
            if (!cur.empty())
                toks.push_back(cur);
            cur.clear();
            if (ch != ' ')
                toks.push_back(std::string(1, ch));
        }
        else
            cur += ch;
    }
    if (!cur.empty())
        toks.push_back(cur);
    auto render = [&](const std::vector<std::string>& t, bool noisy) {
        std::string o;
        Bulk b(s.raw());
        for (size_t i = 0; i < t.size(); ++i)
        {
            bool word = t[i].size() > 1 || std::string("(),;=<>").find(t[i][0]) == std::string::npos;
            std::string w = t[i];
            if (noisy && word && isalpha(static_cast<unsigned char>(w[0])) && w.find('\'') == std::string::npos && b.next() % 4 == 0)
                w = (b.next() & 1) ? "[" + w + "]" : "\"" + w + "\"";
            o += w;
            bool next_word = i + 1 < t.size() && (t[i + 1].size() > 1 || std::string("(),;=<>").find(t[i + 1][0]) == std::string::npos);
            if (noisy)
                o += std::string(b.next() % 3 + ((word && next_word) ? 1 : 0), b.next() % 5 == 0 ? '\n' : ' ');
            else if (word && next_word)
                o += ' ';
        }
        return o;
    };
    std::string base = normalise(render(toks, false));
    std::string noisy = normalise(render(toks, true));
    ctx.describe = "reference " + r.name + " item " + item.substr(0, 60);
    ctx.key = ctx.describe + std::to_string(s.raw());
    ctx.nontrivial = true;
    VF_CHECK(base == noisy, "normaliser distinguishes two spellings of the same DDL:\n   " << base.substr(0, 300) << "\n   " << noisy.substr(0, 300));
    ctx.label("norm:equal-under-respelling");
    // delete / substitute one word token
    std::vector<size_t> words;
    for (size_t i = 0; i < toks.size(); ++i)
        if (toks[i].size() > 1)
            words.push_back(i);
    if (words.empty())
        return;
    size_t w = words[s.below(words.size())];
    auto t2 = toks;
    if (s.coin())
    {
        t2.erase(t2.begin() + w);
        ctx.label("norm:token-deleted");
    }
    else
    {
        t2[w] += "X";
        ctx.label("norm:token-substituted");
    }
    VF_CHECK(normalise(render(t2, true)) != base, "normaliser hides a changed token (" << toks[w] << ")");
}

// ------------------------------------------------------------------------------------------------------ C13
// enumerated space: [0, BOX) the version box x 2 layouts; then presence matrix; then outliers
static const int BOX_MAJ = 5, BOX_MIN = 26, BOX_PAT = 5;
static const uint64_t BOX = 2ull * BOX_MAJ * BOX_MIN * BOX_PAT;  // 1300
static const std::vector<Triple>& outliers()
{
    static const std::vector<Triple> o = {{-1, 6, 0},  {1, -1, 0},   {1, 6, -1},       {2147483647, 0, 0}, {1, 2147483647, 1}, {2, 21, 2147483647}, {0, 0, 0},
                                          {1, 18, 1},  {2, 19, 0},   {2, 22, 0},       {3, 0, 1},          {3, 1, 0},          {10, 6, 0},          {1, 60, 0},
                                          {2, 180, 0}, {2, 18, 256}, {257, 6, 0},      {1, 262, 0},        {65537, 6, 0},      {2, 20, 65537}};
    return o;
}
static const uint64_t C13_STRAY = 6;  // stray-directory cases appended at the end of the enumeration
static const uint64_t C13_TOTAL = BOX + 8 + 2 * 20 + 4 + C13_STRAY;

static e::engine_schema nearest_schema(bool db2, const Triple& t)
{
    e::engine_schema best = db2 ? e::engine_schema::schema_2_18_0 : e::engine_schema::schema_1_6_0;
    long bestd = -1;
    for (auto& kv : supported_triples())
    {
        if (is_v2(kv.first) != db2)
            continue;
        long d = std::labs(static_cast<long>(kv.second.maj) - t.maj) * 10000 + std::labs(static_cast<long>(kv.second.min) - t.min) * 100 +
                 std::labs(static_cast<long>(kv.second.pat) - t.pat);
        if (bestd < 0 || d < bestd)
        {
            bestd = d;
            best = kv.first;
        }
    }
    return best;
}
static void rewrite_version(const std::string& file, const Triple& t)
{
    RawDb db(file);
    std::string err;
    bool ok = db.exec("UPDATE Information SET schemaVersionMajor = " + std::to_string(t.maj) + ", schemaVersionMinor = " + std::to_string(t.min) +
                          ", schemaVersionPatch = " + std::to_string(t.pat),
                      &err);
    if (!ok)
        throw std::runtime_error("cannot rewrite version in " + file + ": " + err);
}
enum class Outcome
{
    loaded,
    unsupported,
    not_found,
    other_exception
};
static Outcome try_load(const std::string& dir, e::engine_schema& loaded, std::string& what)
{
    try
    {
        dj::database db = e::load_database(dir, loaded);
        what = "loaded as " + sname(loaded) + " (" + db.version_name() + ")";
        return Outcome::loaded;
    }
    catch (const dj::unsupported_database& ex)
    {
        what = std::string("unsupported_database: ") + ex.what();
        return Outcome::unsupported;
    }
    catch (const dj::database_not_found& ex)
    {
        what = std::string("database_not_found: ") + ex.what();
        return Outcome::not_found;
    }
    catch (const std::exception& ex)
    {
        what = std::string("exception: ") + ex.what();
        return Outcome::other_exception;
    }
}
// decision table for one stored triple in one layout (shared by the enumerated box and the in-place walk)
static void judge_triple(bool db2, const Triple& t, e::engine_schema base, Outcome o, e::engine_schema loaded, const std::string& what,
                         const std::string& dir, Ctx& ctx, bool& adjacent_out)
{
    std::vector<e::engine_schema> exact, other_layout;
    for (auto& kv : supported_triples())
        if (kv.second.maj == t.maj && kv.second.min == t.min && kv.second.pat == t.pat)
            (is_v2(kv.first) == db2 ? exact : other_layout).push_back(kv.first);
    bool adjacent = false;
    for (auto& kv : supported_triples())
    {
        int64_t d = std::llabs(static_cast<int64_t>(kv.second.maj) - t.maj) + std::llabs(static_cast<int64_t>(kv.second.min) - t.min) +
                    std::llabs(static_cast<int64_t>(kv.second.pat) - t.pat);
        if (d <= 1)
            adjacent = true;
    }
    adjacent_out = adjacent;
    if (!exact.empty())
    {
        ctx.label("supported-triple");
        VF_CHECK(o == Outcome::loaded, ctx.describe << ": a supported version was not loaded: " << what);
        VF_CHECK(std::find(exact.begin(), exact.end(), loaded) != exact.end(), ctx.describe << ": misidentified: " << what);
        if (exact.size() == 2)
            VF_CHECK(loaded == base, ctx.describe << ": 1.18.0 variant misidentified: created as " << sname(base) << ", " << what);
        VF_CHECK(e::database_exists(dir), ctx.describe << ": database_exists() false for a loadable library");
    }
    else if (!other_layout.empty())
    {
        // tolerance: a supported triple found in the other layout may load as exactly that schema or be rejected, never as something else
        ctx.label("supported-triple-in-other-layout");
        if (o == Outcome::loaded)
            VF_CHECK(std::find(other_layout.begin(), other_layout.end(), loaded) != other_layout.end(), ctx.describe << ": misidentified: " << what);
    }
    else if (t.maj == 3 && t.min == 0 && t.pat == 0)
    {
        // tolerance: 3.0.0 is in the enum but not in supported_schemas
        ctx.label("3.0.0");
        if (o == Outcome::loaded)
            VF_CHECK(loaded == e::engine_schema::schema_3_0_0, ctx.describe << ": misidentified: " << what);
    }
    else
    {
        ctx.label(adjacent ? "unsupported-neighbour" : "unsupported-triple");
        VF_CHECK(o == Outcome::unsupported, ctx.describe << ": expected unsupported_database, got: " << what);
    }
}
static void prop_c13(const vf::Case& c, Ctx& ctx)
{
    uint64_t i = c[0].empty() ? 0 : c[0][0];
    ScratchDir sd;
    std::string dir = sd.lib();
    e::engine_schema loaded{};
    std::string what;
    if (i >= BOX && i < BOX + 8)
    {
        // presence matrix: m.db / Database2/m.db present or not, and a directory that does not exist
        uint64_t k = i - BOX;
        bool legacy = k & 1, db2 = k & 2, nodir = k & 4;
        ctx.describe = std::string("presence: m.db ") + (legacy ? "yes" : "no") + ", Database2/m.db " + (db2 ? "yes" : "no") + (nodir ? ", directory missing" : "");
        ctx.key = ctx.describe;
        ctx.label("presence-matrix");
        if (nodir)
        {
            Outcome o = try_load(dir + "/does/not/exist", loaded, what);
            VF_CHECK(o == Outcome::not_found, ctx.describe << ": nonexistent directory -> " << what);
            VF_CHECK(!e::database_exists(dir + "/does/not/exist"), ctx.describe << ": database_exists() true for a nonexistent directory");
            return;
        }
        fs::create_directories(dir);
        ScratchDir a, b;
        if (legacy)
        {
            {
                auto db = e::create_database(a.lib(), e::engine_schema::schema_1_18_0_os);
            }
            fs::copy_file(a.lib() + "/m.db", dir + "/m.db");
            fs::copy_file(a.lib() + "/p.db", dir + "/p.db");
        }
        if (db2)
        {
            {
                auto db = e::create_database(b.lib(), e::engine_schema::schema_2_21_2);
            }
            fs::create_directories(dir + "/Database2");
            fs::copy_file(b.lib() + "/Database2/m.db", dir + "/Database2/m.db");
        }
        Outcome o = try_load(dir, loaded, what);
        bool exists = e::database_exists(dir);
        if (legacy != db2)
        {
            VF_CHECK(o == Outcome::loaded, ctx.describe << ": a single valid layout -> " << what);
            VF_CHECK(loaded == (legacy ? e::engine_schema::schema_1_18_0_os : e::engine_schema::schema_2_21_2), ctx.describe << ": " << what);
            VF_CHECK(exists, ctx.describe << ": database_exists() false");
        }
        else
        {
            VF_CHECK(o == Outcome::not_found, ctx.describe << ": expected database_not_found, got " << what);
            VF_CHECK(!exists, ctx.describe << ": database_exists() true although loading reports database_not_found");
        }
        ctx.nontrivial = true;
        return;
    }
    if (i >= BOX + 8 + 40 + 4)
    {
        // stray directories / files that are not a database must not change what is detected:
        //   0,1: legacy library + an empty Database2 directory (with / without an unrelated file in it)
        //   2: Database2 library + a stray p.db without m.db          3: empty directory with only an empty Database2 directory
        //   4: legacy library + Database2/notes.txt                   5: Database2 library + an unrelated sub-directory
        uint64_t k = i - (BOX + 8 + 40 + 4);
        ctx.describe = "stray-entry case " + std::to_string(k);
        ctx.key = ctx.describe;
        ctx.label("stray-entries");
        ctx.nontrivial = true;
        fs::create_directories(dir);
        ScratchDir a;
        auto put_legacy = [&] {
            {
                auto db = e::create_database(a.lib(), e::engine_schema::schema_1_13_2);
            }
            fs::copy_file(a.lib() + "/m.db", dir + "/m.db");
            fs::copy_file(a.lib() + "/p.db", dir + "/p.db");
        };
        auto put_db2 = [&] {
            {
                auto db = e::create_database(a.lib(), e::engine_schema::schema_2_20_3);
            }
            fs::create_directories(dir + "/Database2");
            fs::copy_file(a.lib() + "/Database2/m.db", dir + "/Database2/m.db");
        };
        std::optional<e::engine_schema> want;
        switch (k)
        {
            case 0:
                put_legacy();
                fs::create_directories(dir + "/Database2");
                want = e::engine_schema::schema_1_13_2;
                break;
            case 1:
            case 4:
                put_legacy();
                fs::create_directories(dir + "/Database2");
                std::ofstream(dir + "/Database2/notes.txt") << "not a database";
                want = e::engine_schema::schema_1_13_2;
                break;
            case 2:
                put_db2();
                std::ofstream(dir + "/p.db") << "";
                want = e::engine_schema::schema_2_20_3;
                break;
            case 3: fs::create_directories(dir + "/Database2"); break;
            default:
                put_db2();
                fs::create_directories(dir + "/Music");
                want = e::engine_schema::schema_2_20_3;
                break;
        }
        Outcome o = try_load(dir, loaded, what);
        if (want)
        {
            VF_CHECK(o == Outcome::loaded && loaded == *want, ctx.describe << ": a single library with a stray non-database entry next to it -> " << what);
            VF_CHECK(e::database_exists(dir), ctx.describe << ": database_exists() false");
        }
        else
        {
            VF_CHECK(o == Outcome::not_found, ctx.describe << ": no database at all -> " << what);
            VF_CHECK(!e::database_exists(dir), ctx.describe << ": database_exists() true without any database");
        }
        return;
    }
    if (i >= BOX + 8 + 40)
    {
        // the documented variant marker of 1.18.0: both variants reload as themselves, also after many operations
        uint64_t k = i - (BOX + 8 + 40);
        auto schema = (k & 1) ? e::engine_schema::schema_1_18_0_os : e::engine_schema::schema_1_18_0_desktop;
        ctx.describe = "1.18.0 variant " + sname(schema) + ((k & 2) ? " with data" : "");
        ctx.key = ctx.describe;
        ctx.label("variant-marker");
        {
            auto db = e::create_database(dir, schema);
            if (k & 2)
            {
                dj::track_snapshot snap;
                snap.relative_path = "variant/marker.mp3";
                snap.sample_rate = 44100;
                snap.sample_count = 441000;
                auto t = db.create_track(snap);
                (void)t;
            }
        }
        Outcome o = Outcome::other_exception;
        try
        {
            o = try_load(dir, loaded, what);
        }
        catch (...)
        {
        }
        VF_CHECK(o == Outcome::loaded && loaded == schema, ctx.describe << ": " << what);
        ctx.nontrivial = true;
        return;
    }
    bool db2;
    Triple t;
    if (i < BOX)
    {
        db2 = i % 2;
        uint64_t k = i / 2;
        t.pat = static_cast<int>(k % BOX_PAT);
        t.min = static_cast<int>((k / BOX_PAT) % BOX_MIN);
        t.maj = static_cast<int>(k / (BOX_PAT * BOX_MIN));
    }
    else
    {
        uint64_t k = i - BOX - 8;
        db2 = k % 2;
        t = outliers()[(k / 2) % outliers().size()];
        ctx.label("outlier");
    }
    ctx.describe = std::string(db2 ? "Database2" : "legacy") + " layout, stored version " + std::to_string(t.maj) + "." + std::to_string(t.min) + "." + std::to_string(t.pat);
    ctx.key = ctx.describe;
    auto base = nearest_schema(db2, t);
    {
        auto db = e::create_database(dir, base);
    }
    if (db2)
        rewrite_version(dir + "/Database2/m.db", t);
    else
    {
        rewrite_version(dir + "/m.db", t);
        rewrite_version(dir + "/p.db", t);
    }
    Outcome o = try_load(dir, loaded, what);
    bool adjacent = false;
    judge_triple(db2, t, base, o, loaded, what, dir, ctx, adjacent);
    ctx.nontrivial = adjacent;
}

// C13.walk: ONE library directory whose stored version is rewritten in place several times (same file, same size, usually within the same
// second), loaded after every rewrite in the same process.  "Selects the schema solely and exactly from the stored major, minor and patch
// version": what an earlier load of the same directory found must not matter.
static void prop_c13_walk(const vf::Case& c, Ctx& ctx)
{
    S s(c[0]);
    ScratchDir sd;
    std::string dir = sd.lib();
    bool db2 = s.coin();
    std::vector<std::pair<e::engine_schema, Triple>> mine;
    for (auto& kv : supported_triples())
        if (is_v2(kv.first) == db2)
            mine.push_back(kv);
    auto base = mine[s.below(mine.size())].first;
    if (base == e::engine_schema::schema_1_18_0_desktop || base == e::engine_schema::schema_1_18_0_os)
        ctx.label("walk:1.18.0-base");
    {
        auto db = e::create_database(dir, base);
    }
    std::string hist = std::string(db2 ? "Database2" : "legacy") + " layout, created as " + sname(base) + ", stored version rewritten in place:";
    size_t steps = 2 + s.below(5);
    bool nt = false;
    Triple prev = triple_of(base);
    bool prev_loaded = true;
    for (size_t k = 0; k < steps; ++k)
    {
        Triple t;
        switch (s.below(5))
        {
            case 0: t = triple_of(base); break;                                   // back to the creation version
            case 1: t = mine[s.below(mine.size())].second; break;                // another supported version of this layout
            case 2:                                                              // a neighbour of a supported version
            {
                t = mine[s.below(mine.size())].second;
                int delta = s.coin() ? 1 : -1;
                switch (s.below(3))
                {
                    case 0: t.pat += delta; break;
                    case 1: t.min += delta; break;
                    default: t.maj += delta; break;
                }
                break;
            }
            case 3: t = outliers()[s.below(outliers().size())]; break;
            default: t = Triple{static_cast<int>(s.below(5)), static_cast<int>(s.below(26)), static_cast<int>(s.below(5))}; break;
        }
        // the 1.18.0 variants are told apart by a marker in the schema, not by the triple: the expectation "loads as the creation schema" only
        // holds for a library created as 1.18.0, so other libraries do not visit 1.18.0
        if (t.maj == 1 && t.min == 18 && t.pat == 0 && base != e::engine_schema::schema_1_18_0_desktop && base != e::engine_schema::schema_1_18_0_os)
            t.pat = 1;
        if (db2)
            rewrite_version(dir + "/Database2/m.db", t);
        else
        {
            rewrite_version(dir + "/m.db", t);
            rewrite_version(dir + "/p.db", t);
        }
        hist += " " + std::to_string(t.maj) + "." + std::to_string(t.min) + "." + std::to_string(t.pat);
        ctx.describe = hist;
        e::engine_schema loaded{};
        std::string what;
        Outcome o = try_load(dir, loaded, what);
        bool adjacent = false;
        judge_triple(db2, t, base, o, loaded, what, dir, ctx, adjacent);
        bool now_loaded = o == Outcome::loaded;
        if (k > 0 && prev_loaded && (t.maj != prev.maj || t.min != prev.min || t.pat != prev.pat))
        {
            ctx.label(now_loaded ? "walk:loaded-then-other-supported" : "walk:loaded-then-unsupported");
            nt = true;
        }
        if (k > 0 && !prev_loaded && now_loaded)
            ctx.label("walk:rejected-then-loaded");
        prev = t;
        prev_loaded = now_loaded;
    }
    ctx.key = hist;
    ctx.nontrivial = nt;
}

// ------------------------------------------------------------------------------------------------------ C17
struct Fingerprint
{
    std::set<std::string> items;
    bool operator==(const Fingerprint& o) const { return items == o.items; }
};
static Fingerprint fingerprint(sqlite3* db)
{
    Fingerprint f;
    for (auto& r : rows(db, "SELECT type, name FROM sqlite_master WHERE type IN ('table','view') AND name NOT LIKE 'sqlite_%'"))
    {
        f.items.insert(r[0] + ":" + r[1]);
        if (r[0] != "table")
            continue;
        for (auto& cr : rows(db, "PRAGMA table_info('" + r[1] + "')"))
            f.items.insert("col:" + r[1] + "." + cr[1] + "|" + cr[2] + "|" + cr[3] + "|" + cr[4] + "|" + cr[5]);
        for (auto& ir : rows(db, "PRAGMA index_list('" + r[1] + "')"))
        {
            std::string cols;
            for (auto& ic : rows(db, "PRAGMA index_info('" + ir[1] + "')"))
                cols += ic[2] + ",";
            // auto-indices are named after their position; identify them by their columns instead
            std::string nm = ir[1].rfind("sqlite_autoindex_", 0) == 0 ? "(auto)" : ir[1];
            f.items.insert("idx:" + r[1] + "." + nm + "|" + ir[2] + "|" + ir[3] + "|" + ir[4] + "|" + cols);
        }
    }
    return f;
}
static const std::vector<std::string>& mutation_kinds()
{
    static const std::vector<std::string> k = {"drop-table",   "rename-table", "add-table",   "drop-view",      "rename-view", "add-view",
                                               "add-column",   "drop-column",  "rename-column", "change-type",  "add-notnull", "add-default",
                                               "drop-index",   "add-index",    "flip-unique", "reorder-columns",
                                               "drop-default", "change-default", "drop-notnull", "drop-pk", "index-columns"};
    return k;
}
static void prop_c17(const vf::Case& c, Ctx& ctx)
{
    S s(c[0]);
    auto schema = schemas_ext()[s.below(schemas_ext().size())];
    ctx.label("schema=" + sname(schema));
    bool v2 = is_v2(schema);
    ScratchDir sd;
    std::string dir = sd.lib();
    {
        auto db = e::create_database(dir, schema);
    }
    std::vector<std::string> files = v2 ? std::vector<std::string>{dir + "/Database2/m.db"} : std::vector<std::string>{dir + "/m.db", dir + "/p.db"};
    std::string file = files[s.below(files.size())];
    ctx.label(file.find("p.db") != std::string::npos ? "file=p.db" : "file=m.db");
    const std::string& kind = mutation_kinds()[s.below(mutation_kinds().size())];
    std::string fam = v2 ? "2.x:" : "1.x:";
    Fingerprint before, after;
    std::string desc, err;
    bool applied = false;
    {
        RawDb db(file);
        before = fingerprint(db.db);
        auto tables = rows(db.db, "SELECT name FROM sqlite_master WHERE type='table' AND name NOT LIKE 'sqlite_%' ORDER BY name");
        auto views = rows(db.db, "SELECT name, sql FROM sqlite_master WHERE type='view' ORDER BY name");
        auto indices = rows(db.db, "SELECT name, tbl_name, sql FROM sqlite_master WHERE type='index' AND sql IS NOT NULL ORDER BY name");
        auto pick = [&](const std::vector<std::vector<std::string>>& v) -> const std::vector<std::string>* { return v.empty() ? nullptr : &v[s.below(v.size())]; };
        db.exec("PRAGMA legacy_alter_table = ON");
        if (kind == "drop-table")
        {
            if (auto t = pick(tables))
            {
                desc = "DROP TABLE " + (*t)[0];
                applied = db.exec("DROP TABLE \"" + (*t)[0] + "\"", &err);
            }
        }
        else if (kind == "rename-table")
        {
            if (auto t = pick(tables))
            {
                desc = "RENAME TABLE " + (*t)[0];
                applied = db.exec("ALTER TABLE \"" + (*t)[0] + "\" RENAME TO \"" + (*t)[0] + "_renamed\"", &err);
            }
        }
        else if (kind == "add-table")
        {
            desc = "CREATE TABLE ExtraTable";
            applied = db.exec("CREATE TABLE ExtraTable (a INTEGER, b TEXT)", &err);
        }
        else if (kind == "drop-view")
        {
            if (auto v = pick(views))
            {
                desc = "DROP VIEW " + (*v)[0];
                applied = db.exec("DROP VIEW \"" + (*v)[0] + "\"", &err);
            }
        }
        else if (kind == "rename-view")
        {
            if (auto v = pick(views))
            {
                desc = "RENAME VIEW " + (*v)[0];
                applied = db.exec("DROP VIEW \"" + (*v)[0] + "\"", &err) && db.exec("CREATE VIEW \"" + (*v)[0] + "_renamed\" AS SELECT 1 AS x", &err);
            }
        }
        else if (kind == "add-view")
        {
            desc = "CREATE VIEW ExtraView";
            applied = db.exec("CREATE VIEW ExtraView AS SELECT 1 AS x", &err);
        }
        else if (kind == "drop-index")
        {
            if (auto ix = pick(indices))
            {
                desc = "DROP INDEX " + (*ix)[0];
                applied = db.exec("DROP INDEX \"" + (*ix)[0] + "\"", &err);
            }
        }
        else if (kind == "flip-unique")
        {
            if (auto ix = pick(indices))
            {
                std::string sql = (*ix)[2];
                bool uniq = sql.find("UNIQUE") != std::string::npos;
                std::string nsql = uniq ? std::regex_replace(sql, std::regex("UNIQUE\\s+"), "") : std::regex_replace(sql, std::regex("CREATE\\s+INDEX"), "CREATE UNIQUE INDEX");
                desc = "FLIP UNIQUE of index " + (*ix)[0];
                applied = db.exec("DROP INDEX \"" + (*ix)[0] + "\"", &err) && db.exec(nsql, &err);
            }
        }
        else if (kind == "index-columns")
        {
            // same index name, same uniqueness, one more column of its table appended to the indexed columns ("change index ... columns")
            if (auto ix = pick(indices))
            {
                std::string sql = (*ix)[2];
                std::set<std::string> have;
                for (auto& ic : rows(db.db, "PRAGMA index_info('" + (*ix)[0] + "')"))
                    have.insert(ic[2]);
                std::string extra;
                for (auto& cc : rows(db.db, "PRAGMA table_info('" + (*ix)[1] + "')"))
                    if (!have.count(cc[1]) && extra.empty())
                        extra = cc[1];
                // the column list is the first parenthesis after " ON "
                size_t on = sql.find(" ON ");
                size_t open = on == std::string::npos ? std::string::npos : sql.find('(', on);
                size_t close = std::string::npos;
                if (open != std::string::npos)
                {
                    int depth = 0;
                    for (size_t k = open; k < sql.size(); ++k)
                    {
                        if (sql[k] == '(')
                            ++depth;
                        if (sql[k] == ')' && --depth == 0)
                        {
                            close = k;
                            break;
                        }
                    }
                }
                desc = "ADD COLUMN " + extra + " TO INDEX " + (*ix)[0];
                if (!extra.empty() && close != std::string::npos)
                {
                    std::string nsql = sql.substr(0, close) + ", \"" + extra + "\"" + sql.substr(close);
                    applied = db.exec("DROP INDEX \"" + (*ix)[0] + "\"", &err) && db.exec(nsql, &err);
                }
            }
        }
        else
        {
            // column-level mutations and add-index need a table and one of its columns
            if (kind == "drop-default" || kind == "change-default" || kind == "drop-notnull" || kind == "drop-pk")
            {   // few tables declare defaults / NOT NULL: choose among the tables the mutation applies to
                std::vector<std::vector<std::string>> apt;
                for (auto& t : tables)
                    for (auto& cc : rows(db.db, "PRAGMA table_info('" + t[0] + "')"))
                        if ((kind == "drop-notnull" && cc[3] == "1") || (kind == "drop-pk" && cc[5] != "0") ||
                            ((kind == "drop-default" || kind == "change-default") && cc[4] != "\x01NULL"))
                        {
                            apt.push_back(t);
                            break;
                        }
                tables = apt;
            }
            if (auto t = pick(tables))
            {
                auto cols = rows(db.db, "PRAGMA table_info('" + (*t)[0] + "')");
                if (!cols.empty())
                {
                    size_t ci = s.below(cols.size());
                    {   // kinds that apply to few columns: take the first applicable column at or after the drawn one (wrapping)
                        auto applies = [&](const std::vector<std::string>& cc) {
                            if (kind == "drop-default" || kind == "change-default")
                                return cc[4] != "\x01NULL";
                            if (kind == "drop-notnull")
                                return cc[3] == "1";
                            if (kind == "drop-pk")
                                return cc[5] != "0";
                            return true;
                        };
                        for (size_t k = 0; k < cols.size(); ++k)
                            if (applies(cols[(ci + k) % cols.size()]))
                            {
                                ci = (ci + k) % cols.size();
                                break;
                            }
                    }
                    auto& col = cols[ci];
                    std::string tn = (*t)[0], cn = col[1];
                    if (kind == "add-column")
                    {
                        desc = "ADD COLUMN " + tn + ".extra_col";
                        applied = db.exec("ALTER TABLE \"" + tn + "\" ADD COLUMN extra_col INTEGER", &err);
                    }
                    else if (kind == "drop-column")
                    {
                        desc = "DROP COLUMN " + tn + "." + cn;
                        applied = db.exec("ALTER TABLE \"" + tn + "\" DROP COLUMN \"" + cn + "\"", &err);
                    }
                    else if (kind == "rename-column")
                    {
                        desc = "RENAME COLUMN " + tn + "." + cn;
                        applied = db.exec("ALTER TABLE \"" + tn + "\" RENAME COLUMN \"" + cn + "\" TO \"" + cn + "_renamed\"", &err);
                    }
                    else if (kind == "add-index")
                    {
                        desc = "CREATE INDEX extra_index ON " + tn + "(" + cn + ")";
                        applied = db.exec("CREATE INDEX extra_index ON \"" + tn + "\" (\"" + cn + "\")", &err);
                    }
                    else
                    {
                        // edit the stored CREATE TABLE text (writable_schema): find this column's definition by a top-level comma split
                        auto ddl = rows(db.db, "SELECT sql FROM sqlite_master WHERE type='table' AND name='" + tn + "'");
                        if (!ddl.empty())
                        {
                            std::string sql = ddl[0][0];
                            size_t open = sql.find('(');
                            size_t close = sql.rfind(')');
                            if (open != std::string::npos && close != std::string::npos && close > open)
                            {
                                std::vector<std::string> parts;
                                int depth = 0;
                                std::string cur;
                                for (size_t k = open + 1; k < close; ++k)
                                {
                                    char ch = sql[k];
                                    if (ch == '(')
                                        ++depth;
                                    if (ch == ')')
                                        --depth;
                                    if (ch == ',' && depth == 0)
                                    {
                                        parts.push_back(cur);
                                        cur.clear();
                                    }
                                    else
                                        cur += ch;
                                }
                                parts.push_back(cur);
                                // the column's part: first identifier equals the column name
                                int which = -1;
                                for (size_t k = 0; k < parts.size(); ++k)
                                {
                                    std::string n = normalise(parts[k]);
                                    if (n.rfind(cn + " ", 0) == 0 || n == cn)
                                    {
                                        which = static_cast<int>(k);
                                        break;
                                    }
                                }
                                if (which >= 0)
                                {
                                    std::string& part = parts[which];
                                    bool done = false;
                                    if (kind == "change-type")
                                    {
                                        std::string ty = col[2];
                                        std::string nt = ty == "TEXT" ? "INTEGER" : "TEXT";
                                        size_t p = ty.empty() ? std::string::npos : part.find(ty);
                                        if (p != std::string::npos)
                                        {
                                            part.replace(p, ty.size(), nt);
                                            done = true;
                                        }
                                        desc = "CHANGE TYPE of " + tn + "." + cn + " from " + ty + " to " + nt;
                                    }
                                    else if (kind == "add-notnull")
                                    {
                                        // nullability alone (the stored text is edited, no row is checked, so no default is needed), on
                                        // key columns as well: "id INTEGER PRIMARY KEY NOT NULL" declares a different column than the schema's
                                        if (col[3] == "0")
                                        {
                                            part += " NOT NULL";
                                            done = true;
                                            if (col[5] != "0")
                                                ctx.label("add-notnull:key-column");
                                        }
                                        desc = "ADD NOT NULL to " + tn + "." + cn;
                                    }
                                    else if (kind == "add-default")
                                    {
                                        if (col[4] == "\x01NULL")
                                        {
                                            part += " DEFAULT 7";
                                            done = true;
                                        }
                                        desc = "ADD DEFAULT to " + tn + "." + cn;
                                    }
                                    else if (kind == "drop-default" || kind == "change-default")
                                    {
                                        // only columns that declare a default (few: biased towards them below)
                                        std::smatch m;
                                        static const std::regex re("\\s+DEFAULT\\s+(\\S+)", std::regex::icase);
                                        if (col[4] != "\x01NULL" && std::regex_search(part, m, re))
                                        {
                                            std::string repl = kind == "drop-default" ? "" : (m[1].str() == "77" ? " DEFAULT 78" : " DEFAULT 77");
                                            part = m.prefix().str() + repl + m.suffix().str();
                                            done = true;
                                        }
                                        desc = (kind == "drop-default" ? "DROP DEFAULT of " : "CHANGE DEFAULT of ") + tn + "." + cn;
                                    }
                                    else if (kind == "drop-notnull")
                                    {
                                        std::smatch m;
                                        static const std::regex re("\\s+NOT\\s+NULL", std::regex::icase);
                                        if (col[3] == "1" && std::regex_search(part, m, re))
                                        {
                                            part = m.prefix().str() + m.suffix().str();
                                            done = true;
                                        }
                                        desc = "DROP NOT NULL of " + tn + "." + cn;
                                    }
                                    else if (kind == "drop-pk")
                                    {
                                        std::smatch m;
                                        static const std::regex re("\\s+PRIMARY\\s+KEY(\\s+AUTOINCREMENT)?", std::regex::icase);
                                        if (col[5] != "0" && std::regex_search(part, m, re))
                                        {
                                            part = m.prefix().str() + m.suffix().str();
                                            done = true;
                                        }
                                        desc = "DROP PRIMARY KEY of " + tn + "." + cn;
                                    }
                                    else if (kind == "reorder-columns")
                                    {
                                        // an equivalent mutant for validators that compare sets: swap this column with its neighbour
                                        size_t other = static_cast<size_t>(which) + 1;
                                        auto is_col = [&](const std::string& x) {
                                            std::string n = normalise(x);
                                            for (auto& cc : cols)
                                                if (n.rfind(cc[1] + " ", 0) == 0 || n == cc[1])
                                                    return true;
                                            return false;
                                        };
                                        if (other < parts.size() && is_col(parts[other]))
                                        {
                                            std::swap(parts[which], parts[other]);
                                            done = true;
                                        }
                                        desc = "SWAP COLUMNS " + tn + "." + cn + " and its successor";
                                    }
                                    if (done)
                                    {
                                        std::string nsql = sql.substr(0, open + 1);
                                        for (size_t k = 0; k < parts.size(); ++k)
                                            nsql += (k ? "," : "") + parts[k];
                                        nsql += sql.substr(close);
                                        std::string esc;
                                        for (char ch : nsql)
                                        {
                                            esc += ch;
                                            if (ch == '\'')
                                                esc += '\'';
                                        }
                                        applied = db.exec("PRAGMA writable_schema = ON", &err) &&
                                                  db.exec("UPDATE sqlite_master SET sql = '" + esc + "' WHERE type='table' AND name='" + tn + "'", &err) &&
                                                  db.exec("PRAGMA writable_schema = OFF", &err);
                                    }
                                }
                            }
                        }
                    }
                }
            }
        }
    }
    ctx.label(fam + kind);
    ctx.describe = "schema " + sname(schema) + " " + file.substr(dir.size()) + ": " + desc;
    ctx.key = ctx.describe;
    if (!applied)
    {
        ctx.label("mutation-not-applicable");
        return;
    }
    {
        RawDb db(file, false);
        std::vector<std::vector<std::string>> ic;
        try
        {
            ic = rows(db.db, "PRAGMA integrity_check");
        }
        catch (const std::exception&)
        {
        }
        if (ic.size() != 1 || ic[0][0] != "ok")
        {
            ctx.label("mutant-fails-integrity-check");
            return;
        }
        try
        {
            after = fingerprint(db.db);
        }
        catch (const std::exception&)
        {
            ctx.label("mutant-unreadable");
            return;
        }
    }
    bool effective = !(before == after);
    ctx.label(effective ? "effective-mutant" : "equivalent-mutant");
    if (effective)
        ctx.label("effective:" + fam + kind);
    ctx.nontrivial = effective;
    bool inconsistent = false;
    std::string what;
    try
    {
        e::engine_schema loaded{};
        dj::database db = e::load_database(dir, loaded);
        db.verify();
    }
    catch (const dj::database_inconsistency& ex)
    {
        inconsistent = true;
        what = ex.what();
    }
    catch (const std::exception& ex)
    {
        // e.g. a view that no longer compiles makes SQLite refuse the schema: not verify()'s judgement
        ctx.label("mutant-not-loadable");
        ctx.nontrivial = false;
        return;
    }
    if (effective)
        VF_CHECK(inconsistent, ctx.describe << ": verify() accepts a structural deviation (" << fam << kind << ")");
    else
        VF_CHECK(!inconsistent, ctx.describe << ": verify() rejects a library whose structure is unchanged (" << fam << kind << "): " << what);
}

// ---- C17, enumerated: every structural element x every applicable mutation kind (no randomness).
// The element lists are read once per process from a pristine library of each schema with exactly the queries prop_c17 uses, so the
// tuple (schema, file, kind, first pick, second pick) reproduces one specific mutation when it is fed to prop_c17 as its choices.
struct C17Tuple
{
    uint64_t schema, file, kind, pick1, pick2;
};
static std::vector<C17Tuple> c17_build_enum(bool all_kinds)
{
    std::vector<C17Tuple> out;
    auto kind_idx = [&](const std::string& k) -> uint64_t {
        auto& ks = mutation_kinds();
        return static_cast<uint64_t>(std::find(ks.begin(), ks.end(), k) - ks.begin());
    };
    // quick tier: whole-element kinds for every table / view / index, and the three column kinds that need no precondition
    std::set<std::string> wanted = {"drop-table", "rename-table", "add-table", "drop-view", "rename-view", "add-view", "drop-index", "flip-unique",
                                    "drop-column", "rename-column", "change-type", "add-notnull", "index-columns"};
    auto want = [&](const std::string& k) { return all_kinds || wanted.count(k); };
    for (uint64_t si = 0; si < schemas_ext().size(); ++si)
    {
        auto schema = schemas_ext()[si];
        bool v2 = is_v2(schema);
        ScratchDir sd;
        std::string dir = sd.lib();
        {
            auto db = e::create_database(dir, schema);
        }
        std::vector<std::string> files = v2 ? std::vector<std::string>{dir + "/Database2/m.db"} : std::vector<std::string>{dir + "/m.db", dir + "/p.db"};
        for (uint64_t fi = 0; fi < files.size(); ++fi)
        {
            RawDb db(files[fi], false);
            auto tables = rows(db.db, "SELECT name FROM sqlite_master WHERE type='table' AND name NOT LIKE 'sqlite_%' ORDER BY name");
            auto views = rows(db.db, "SELECT name, sql FROM sqlite_master WHERE type='view' ORDER BY name");
            auto indices = rows(db.db, "SELECT name, tbl_name, sql FROM sqlite_master WHERE type='index' AND sql IS NOT NULL ORDER BY name");
            auto push = [&](const std::string& k, uint64_t p1, uint64_t p2) {
                if (want(k))
                    out.push_back({si, fi, kind_idx(k), p1, p2});
            };
            for (uint64_t t = 0; t < tables.size(); ++t)
            {
                push("drop-table", t, 0);
                push("rename-table", t, 0);
                push("add-column", t, 0);
            }
            for (uint64_t v = 0; v < views.size(); ++v)
            {
                push("drop-view", v, 0);
                push("rename-view", v, 0);
            }
            for (uint64_t x = 0; x < indices.size(); ++x)
            {
                push("drop-index", x, 0);
                push("flip-unique", x, 0);
                push("index-columns", x, 0);
            }
            push("add-table", 0, 0);
            push("add-view", 0, 0);
            std::vector<std::vector<std::vector<std::string>>> cols;
            for (auto& t : tables)
                cols.push_back(rows(db.db, "PRAGMA table_info('" + t[0] + "')"));
            for (uint64_t t = 0; t < tables.size(); ++t)
                for (uint64_t c = 0; c < cols[t].size(); ++c)
                    for (const char* k : {"drop-column", "rename-column", "add-index", "change-type", "add-notnull", "add-default", "reorder-columns"})
                        push(k, t, c);
            // kinds with a precondition: prop_c17 first narrows the tables to those with an applicable column
            for (const std::string k : {"drop-default", "change-default", "drop-notnull", "drop-pk"})
            {
                auto applies = [&](const std::vector<std::string>& cc) {
                    if (k == "drop-default" || k == "change-default")
                        return cc[4] != "\x01NULL";
                    if (k == "drop-notnull")
                        return cc[3] == "1";
                    return cc[5] != "0";
                };
                uint64_t apt = 0;
                for (uint64_t t = 0; t < tables.size(); ++t)
                {
                    bool any = false;
                    for (uint64_t c = 0; c < cols[t].size(); ++c)
                        if (applies(cols[t][c]))
                        {
                            push(k, apt, c);
                            any = true;
                        }
                    if (any)
                        ++apt;
                }
            }
        }
    }
    return out;
}
static const std::vector<C17Tuple>& c17_enum(bool all_kinds)
{
    static std::vector<C17Tuple> quick, full;
    static bool bq = false, bf = false;
    if (all_kinds)
    {
        if (!bf)
        {
            full = c17_build_enum(true);
            bf = true;
        }
        return full;
    }
    if (!bq)
    {
        quick = c17_build_enum(false);
        bq = true;
    }
    return quick;
}
static void prop_c17_enum_impl(const vf::Case& c, Ctx& ctx, bool all_kinds)
{
    uint64_t i = c.empty() || c[0].empty() ? 0 : c[0][0];
    auto& space = c17_enum(all_kinds);
    VF_CHECK(i < space.size(), "index outside the enumeration");
    const C17Tuple& t = space[i];
    vf::Case inner{vf::Record{t.schema, t.file, t.kind, t.pick1, t.pick2}};
    prop_c17(inner, ctx);
    ctx.label("enum");
}
static void prop_c17_enum(const vf::Case& c, Ctx& ctx) { prop_c17_enum_impl(c, ctx, false); }
static void prop_c17_enum_all(const vf::Case& c, Ctx& ctx) { prop_c17_enum_impl(c, ctx, true); }

// enumerated: every reference dump hydrated by the library itself must pass verify() (when its version is supported)
static void prop_c17_refs(const vf::Case& c, Ctx& ctx)
{
    uint64_t i = c[0].empty() ? 0 : c[0][0];
    auto& all = refs();
    const RefDump& r = all[i % all.size()];
    ctx.describe = "reference dump " + r.name + " (" + std::to_string(r.version.maj) + "." + std::to_string(r.version.min) + "." + std::to_string(r.version.pat) + ")";
    ctx.key = ctx.describe;
    if (!r.schema)
    {
        ctx.label("reference-of-unsupported-version");
        return;
    }
    ctx.label("schema=" + sname(*r.schema));
    ctx.nontrivial = true;
    ScratchDir sd;
    fs::create_directories(sd.lib());
    e::engine_schema loaded{};
    try
    {
        dj::database db = e::create_database_from_scripts(sd.lib(), r.script_dir, loaded);
        VF_CHECK(loaded == *r.schema, ctx.describe << ": hydrated as " << sname(loaded) << ", expected " << sname(*r.schema));
        db.verify();
    }
    catch (const vf::Fail&)
    {
        throw;
    }
    catch (const std::exception& ex)
    {
        VF_CHECK(false, ctx.describe << ": verify() rejects a reference library: " << ex.what());
    }
}

int main(int argc, char** argv)
{
    std::vector<vf::PropSpec> specs;
    auto add = [&](const char* id, vf::PropertyFn fn, int len, uint64_t enum_total)
    {
        vf::PropSpec p;
        p.id = id;
        p.fn = fn;
        p.rec_min = p.rec_max = 1;
        p.rec_len = len;
        p.watchdog_s = 120;
        p.enum_total = enum_total;
        specs.push_back(p);
    };
    add("C12", prop_c12, 1, 38);
    add("C12.norm", prop_c12_norm, 8, 0);
    add("C13", prop_c13, 1, C13_TOTAL);
    add("C13.walk", prop_c13_walk, 24, 0);
    add("C17", prop_c17, 12, 0);
    {
        // building the element lists creates 19 libraries: only when an enumerated C17 part (or the list of sizes) is asked for
        bool list = argc > 1 && std::string(argv[1]) == "list", q = list, f = list;
        for (int i = 1; i < argc; ++i)
        {
            q = q || std::string(argv[i]) == "C17.enum";
            f = f || std::string(argv[i]) == "C17.enumAll";
        }
        add("C17.enum", prop_c17_enum, 1, q ? c17_enum(false).size() : 1);
        add("C17.enumAll", prop_c17_enum_all, 1, f ? c17_enum(true).size() : 1);
    }
    uint64_t nrefs = 0;
    try
    {
        nrefs = refs().size();
    }
    catch (const std::exception& ex)
    {
        std::cerr << "cannot load reference dumps: " << ex.what() << "\n";
        return 2;
    }
    add("C17.refs", prop_c17_refs, 1, nrefs);
    return vf::pbt_main(argc, argv, specs);
}
