// Codec-level properties, rapidcheck-driven (san variant: g++ ASan+UBSan, _GLIBCXX_ASSERTIONS, asserts on).
//   C03      decode(encode(v)) == v bit for bit over the whole struct domain, or encode throws
//   C02.enc  refcodec decodes what the library encodes to the layout tokens of the value (+ framing well-formed)
//   C02.dec  the library decodes what refcodec encodes (any zlib level, foreign flags/unknowns/tails) to the value
//   C04      payload(to_blob(from_blob(b))) == payload(b) for refcodec-built foreign 2.x blobs
//   C05      structured near-miss byte strings: decoders return or throw std::exception, no sanitizer report, no hang
#include "common/codec_values.hpp"

using namespace cv;
using vf::Case;

#include "common/bigalloc.hpp"

template <int K>
struct KT;
#define VF_KIND(K, TYPE, GEN, ENC, DEC)                                                \
    template <>                                                                        \
    struct KT<K>                                                                       \
    {                                                                                  \
        using V = TYPE;                                                                \
        static V gen(S& s, Ctx& c, const GenOpts& o)                                   \
        {                                                                              \
            V v = GEN(s, c, o);                                                        \
            chunk_align(K, v, s, c);                                                   \
            return v;                                                                  \
        }                                                                              \
        static LibBytes enc(const V& v) { return v.ENC(); }                            \
        static V dec(const LibBytes& b) { return V::DEC(b); }                          \
    };
VF_KIND(ref::V2_TRACK_DATA, v2::track_data_blob, gen_v2_track, to_blob, from_blob)
VF_KIND(ref::V2_BEAT_DATA, v2::beat_data_blob, gen_v2_beat, to_blob, from_blob)
VF_KIND(ref::V2_QUICK_CUES, v2::quick_cues_blob, gen_v2_cues, to_blob, from_blob)
VF_KIND(ref::V2_LOOPS, v2::loops_blob, gen_v2_loops, to_blob, from_blob)
VF_KIND(ref::V2_OVERVIEW, v2::overview_waveform_data_blob, gen_v2_overview, to_blob, from_blob)
VF_KIND(ref::V1_TRACK_DATA, v1::track_data, gen_v1_track, encode, decode)
VF_KIND(ref::V1_BEAT_DATA, v1::beat_data, gen_v1_beat, encode, decode)
VF_KIND(ref::V1_HIGH_RES, v1::high_res_waveform_data, gen_v1_highres, encode, decode)
VF_KIND(ref::V1_OVERVIEW, v1::overview_waveform_data, gen_v1_overview, encode, decode)
VF_KIND(ref::V1_QUICK_CUES, v1::quick_cues_data, gen_v1_cues, encode, decode)
VF_KIND(ref::V1_LOOPS, v1::loops_data, gen_v1_loops, encode, decode)

template <template <int> class F, class... A>
void dispatch(int kind, A&&... a)
{
    switch (kind)
    {
        case 0: F<0>::run(a...); break;
        case 1: F<1>::run(a...); break;
        case 2: F<2>::run(a...); break;
        case 3: F<3>::run(a...); break;
        case 4: F<4>::run(a...); break;
        case 5: F<5>::run(a...); break;
        case 6: F<6>::run(a...); break;
        case 7: F<7>::run(a...); break;
        case 8: F<8>::run(a...); break;
        case 9: F<9>::run(a...); break;
        default: F<10>::run(a...); break;
    }
}

template <class V>
static size_t entry_count(const V&)
{
    return 0;
}
static size_t entry_count(const v2::beat_data_blob& v) { return v.default_beat_grid.size() + v.adjusted_beat_grid.size(); }
static size_t entry_count(const v2::quick_cues_blob& v) { return v.quick_cues.size(); }
static size_t entry_count(const v2::loops_blob& v) { return v.loops.size(); }
static size_t entry_count(const v2::overview_waveform_data_blob& v) { return v.waveform_points.size(); }
static size_t entry_count(const v1::beat_data& v) { return v.default_beatgrid.size() + v.adjusted_beatgrid.size(); }
static size_t entry_count(const v1::high_res_waveform_data& v) { return v.waveform.size(); }
static size_t entry_count(const v1::overview_waveform_data& v) { return v.waveform.size(); }
static size_t entry_count(const v1::quick_cues_data& v) { return v.hot_cues.size(); }
static size_t entry_count(const v1::loops_data& v) { return v.loops.size(); }
template <class V>
static bool has_extra(const V&)
{
    return false;
}
static bool has_extra(const v2::beat_data_blob& v) { return !v.extra_data.empty(); }
static bool has_extra(const v2::quick_cues_blob& v) { return !v.extra_data.empty(); }
static bool has_extra(const v2::loops_blob& v) { return !v.extra_data.empty(); }
static bool has_extra(const v2::overview_waveform_data_blob& v) { return !v.extra_data.empty(); }
static bool has_extra(const v2::track_data_blob& v) { return !v.extra_data.empty(); }

// ------------------------------------------------------------------------------------------------------ C03
template <int K>
struct C03
{
    using T = KT<K>;
    static void check(const typename T::V& v, Ctx& ctx, uint64_t poison = 0)
    {
        std::string kn = ref::kind_name(K);
        ctx.label("kind=" + kn);
        std::string cv_ = canon(v);
        ctx.describe = cv_;
        ctx.key = cv_;
        ctx.nontrivial = entry_count(v) > 0 || has_extra(v);
        LibBytes blob;
        try
        {
            blob = T::enc(v);
        }
        catch (const std::exception& e)
        {
            ctx.label("encode-rejected");
            ctx.label(kn + ":encode-rejected");
            ctx.nontrivial = false;
            return;  // rejection with an exception is allowed
        }
        ctx.label(kn + ":encoded");
        // Codecs are used one call after another on the same thread: one time in four a damaged copy of this very blob (cut short, one
        // byte altered, or a wrong length prefix) is given to the decoder first and its verdict ignored - the decode of the intact blob
        // that follows must not be affected by whatever the rejected call left behind.
        if (poison != 0 && !blob.empty())
        {
            LibBytes bad = blob;
            switch (poison % 3)
            {
                case 0: bad.resize(static_cast<size_t>((poison / 3) % blob.size())); break;
                case 1: bad[static_cast<size_t>((poison / 3) % blob.size())] ^= static_cast<std::byte>(0x5a); break;
                default: bad[static_cast<size_t>((poison / 3) % std::min<size_t>(4, blob.size()))] ^= static_cast<std::byte>(0x01); break;
            }
            try
            {
                (void)T::dec(bad);
            }
            catch (const std::exception&)
            {
            }
            ctx.label("after-rejected-decode");
        }
        typename T::V back;
        try
        {
            back = T::dec(blob);
        }
        catch (const std::exception& e)
        {
            VF_CHECK(false, kn << ": the library's own encoding is rejected by its decoder (" << e.what() << ") for " << cv_);
        }
        std::string want = canon(project(v)), got = canon(back);
        VF_CHECK(want == got, kn << ": decode(encode(v)) differs from v\n  want " << want << "\n  got  " << got);
    }
    static void run(S& s, Ctx& ctx)
    {
        GenOpts o;
        o.whole_domain = true;
        auto v = T::gen(s, ctx, o);
        uint64_t poison = s.below(4) == 0 ? 1 + s.raw() % 1000003 : 0;
        check(v, ctx, poison);
    }
};
static void prop_c03(const Case& c, Ctx& ctx)
{
    S s(c[0]);
    int kind = static_cast<int>(s.below(ref::KIND_COUNT));
    dispatch<C03>(kind, s, ctx);
}

// Hand-written regression scenarios for defects that were fixed (known_findings.json): case = "R <scenario>".
static void prop_c03_reg(const Case& c, Ctx& ctx)
{
    S s(c[0]);
    uint64_t id = s.raw();
    auto cue = [](const std::string& l, double off) { return dj::hot_cue{l, off, dj::pad_color{1, 2, 3, 4}}; };
    auto lp = [](const std::string& l, double a) { return dj::loop{l, a, a + 100, dj::pad_color{1, 2, 3, 4}}; };
    switch (id)
    {
        case 0:
        case 1:
        {  // F02: 1.x quick cues with a slot count other than 8 (heap overflow for > 8)
            v1::quick_cues_data v;
            for (int i = 0; i < (id == 0 ? 9 : 3); ++i)
                v.hot_cues.push_back(cue("cue", 1000.0 * i));
            C03<ref::V1_QUICK_CUES>::check(v, ctx);
            break;
        }
        case 2:
        {  // F03: labels of 256 bytes
            v2::quick_cues_blob v{};
            v.quick_cues.push_back(v2::quick_cue_blob{std::string(256, 'x'), 5.0, dj::pad_color{1, 2, 3, 4}});
            C03<ref::V2_QUICK_CUES>::check(v, ctx);
            break;
        }
        case 3:
        {
            v2::loops_blob v{};
            v.loops.push_back(v2::loop_blob{std::string(256, 'x'), 5.0, 9.0, 1, 1, dj::pad_color{1, 2, 3, 4}});
            C03<ref::V2_LOOPS>::check(v, ctx);
            break;
        }
        case 4:
        {
            v1::quick_cues_data v;
            for (int i = 0; i < 8; ++i)
                v.hot_cues.push_back(i == 3 ? std::make_optional(cue(std::string(300, 'y'), 7.0)) : std::nullopt);
            C03<ref::V1_QUICK_CUES>::check(v, ctx);
            break;
        }
        case 5:
        {
            v1::loops_data v;
            for (int i = 0; i < 8; ++i)
                v.loops.push_back(i == 7 ? std::make_optional(lp(std::string(256, 'y'), 7.0)) : std::nullopt);
            C03<ref::V1_LOOPS>::check(v, ctx);
            break;
        }
        case 7:
        case 8:
        case 9:
        case 10:
        {  // F09: 1.x grids the decoder cannot read back
            v1::beat_data v;
            v.sample_rate = 44100;
            v.sample_count = 1e7;
            if (id == 7)
                v.default_beatgrid = {{0, 100.0}};
            else if (id == 8)
                v.default_beatgrid = {{0, 100.0}, {8, 50.0}, {16, 900.0}};
            else if (id == 9)
                for (int i = 0; i < 32769; ++i)
                    v.default_beatgrid.push_back({i, 1000.0 * i});
            else
                v.default_beatgrid = {{INT_MIN, 0.0}, {INT_MAX, 1000.0}};
            v.adjusted_beatgrid = v.default_beatgrid;
            C03<ref::V1_BEAT_DATA>::check(v, ctx);
            break;
        }
        case 11:
        {  // F08: extra data on the two 2.x kinds whose decoder insisted on an exact length
            v2::track_data_blob v{44100, 1000, 3, 0.5, 0.25, 0.125, {std::byte{1}, std::byte{2}, std::byte{3}}};
            C03<ref::V2_TRACK_DATA>::check(v, ctx);
            break;
        }
        case 12:
        {
            v2::overview_waveform_data_blob v{};
            v.samples_per_waveform_point = 10;
            v.waveform_points = {{1, 2, 3}, {4, 5, 6}};
            v.maximum_point = {4, 5, 6};
            v.extra_data = {std::byte{9}, std::byte{8}, std::byte{7}, std::byte{6}, std::byte{5}};
            C03<ref::V2_OVERVIEW>::check(v, ctx);
            break;
        }
        default: break;
    }
}

// ------------------------------------------------------------------------------------------------------ C02.enc
template <int K>
struct C02Enc
{
    static void run(S& s, Ctx& ctx)
    {
        using T = KT<K>;
        GenOpts o;
        o.whole_domain = false;
        o.sorted_grids = true;
        auto v = T::gen(s, ctx, o);
        std::string kn = ref::kind_name(K);
        ctx.label("kind=" + kn);
        ctx.describe = canon(v);
        ctx.key = ctx.describe;
        LibBytes blob;
        try
        {
            blob = T::enc(v);
        }
        catch (const std::exception&)
        {
            ctx.label("encode-rejected");
            return;
        }
        ctx.nontrivial = entry_count(v) > 0 || blob.size() > 40;
        ref::Bytes rb = to_ref(blob);
        if (ref::compressed(K))
        {
            ref::Unframed u;
            try
            {
                u = ref::unframe(rb);
            }
            catch (const ref::Malformed& e)
            {
                VF_CHECK(false, kn << ": framing of the written blob is not well-formed: " << e.what());
            }
            VF_CHECK(!u.no_data, kn << ": written blob has a zero length prefix");
            if (u.payload.size() > 16384)
                ctx.label("payload>16KiB");
            if (rb.size() - 4 > 16384)
                ctx.label("deflate-output>16KiB");
        }
        ref::Toks got;
        try
        {
            got = ref::decode(K, rb);
        }
        catch (const ref::Malformed& e)
        {
            VF_CHECK(false, kn << ": independent decoder cannot parse the written blob: " << e.what());
        }
        ref::Toks want = toks(v);
        if (K == ref::V1_BEAT_DATA)
        {
            // the trailing bytes are a layout constant (all zero), not content
            VF_CHECK(!got.empty() && got.back().str, kn << ": no tail token");
            for (char ch : got.back().s)
                VF_CHECK(ch == 0, kn << ": non-zero trailing byte written");
            got.back().s.clear();
        }
        size_t d = first_diff(want, got);
        VF_CHECK(want == got, kn << ": independent decoder reads different content at token " << d << "\n  want " << toks_str(want)
                                 << "\n  got  " << toks_str(got));
    }
};
static void prop_c02_enc(const Case& c, Ctx& ctx)
{
    S s(c[0]);
    int kind = static_cast<int>(s.below(ref::KIND_COUNT));
    dispatch<C02Enc>(kind, s, ctx);
}

// ------------------------------------------------------------------------------------------------------ C02.dec
// foreign shapes the 1.x structs cannot represent and must ignore: flag bytes, unknown fields, zero tails, max entries
static void foreignise(int K, ref::Toks& t, S& s, Ctx& ctx)
{
    auto rnd8 = [&] { return static_cast<uint64_t>(s.below(256)); };
    switch (K)
    {
        case ref::V1_BEAT_DATA:
        {
            if (s.coin())
            {
                t[2].v = rnd8();
                ctx.label("foreign:flag");
            }
            // unknown field of every marker: token layout is [rate, count, flag, n, (off, idx, beats, unk)*n, m, (...)*m, tail]
            size_t p = 3;
            for (int g = 0; g < 2; ++g)
            {
                size_t n = t[p].v;
                ++p;
                for (size_t i = 0; i < n; ++i)
                {
                    if (s.below(4) == 0)
                        t[p + 3].v = static_cast<uint64_t>(static_cast<int64_t>(static_cast<int32_t>(s.raw())));
                    p += 4;
                }
            }
            if (s.coin())
            {
                t.back().s = std::string(s.coin() ? 9 : s.below(17), '\0');
                ctx.label("foreign:zero-tail");
            }
            break;
        }
        case ref::V1_LOOPS:
        {
            size_t n = t[0].v, p = 1;
            for (size_t i = 0; i < n; ++i)
            {
                if (s.below(3) == 0)
                {
                    t[p + 3].v = rnd8();
                    t[p + 4].v = rnd8();
                    ctx.label("foreign:flag");
                }
                p += 9;
            }
            break;
        }
        case ref::V1_QUICK_CUES:
        {
            // is_adjusted may legitimately be 1 although both cues are equal
            size_t n = t[0].v;
            size_t flag = 1 + 6 * n + 1;
            if (t[flag].v == 0 && s.coin())
            {
                t[flag].v = 1;
                ctx.label("foreign:flag");
            }
            break;
        }
        case ref::V1_HIGH_RES:
            for (size_t i = t.size() - 6; i < t.size(); ++i)
                if (s.coin())
                    t[i].v = rnd8();
            break;
        case ref::V1_OVERVIEW:
            for (size_t i = t.size() - 3; i < t.size(); ++i)
                if (s.coin())
                    t[i].v = rnd8();
            break;
        default: break;
    }
}
template <int K>
struct C02Dec
{
    static void run(S& s, Ctx& ctx)
    {
        using T = KT<K>;
        GenOpts o;
        o.whole_domain = false;
        o.sorted_grids = true;
        auto v = T::gen(s, ctx, o);
        std::string kn = ref::kind_name(K);
        ctx.label("kind=" + kn);
        ref::Toks t;
        try
        {
            t = toks(v);
        }
        catch (...)
        {
            throw;
        }
        bool is_v1 = K >= ref::V1_TRACK_DATA;
        if (is_v1)
            foreignise(K, t, s, ctx);
        int level = static_cast<int>(s.below(11)) - 1;  // -1 (default), 0 (stored) .. 9
        if (level == 0)
            ctx.label("zlib-stored");
        ref::Bytes blob;
        try
        {
            blob = ref::encode(K, t, level);
        }
        catch (const ref::Malformed&)
        {
            ctx.label("not-representable");  // label > 255 bytes
            return;
        }
        ctx.describe = canon(v) + " level=" + std::to_string(level) + " blob=" + hex(blob.data(), blob.size(), 24);
        ctx.key = ctx.describe;
        ctx.nontrivial = entry_count(v) > 0 || blob.size() > 40;
        if (blob.size() > 16384 + 4)
            ctx.label("blob>16KiB");
        // Decoders are called one after another on the same thread, and real libraries hold damaged blobs next to good ones: one time in
        // four a damaged copy of this foreign blob (cut short, one byte altered, wrong length prefix) goes through the decoder first, its
        // verdict ignored; the agreement on the intact blob must not depend on what the rejected call left behind.
        if (s.below(4) == 0 && !blob.empty())
        {
            uint64_t poison = s.raw();
            LibBytes bad = to_lib(blob);
            switch (poison % 3)
            {
                case 0: bad.resize(static_cast<size_t>((poison / 3) % bad.size())); break;
                case 1: bad[static_cast<size_t>((poison / 3) % bad.size())] ^= static_cast<std::byte>(0x5a); break;
                default: bad[static_cast<size_t>((poison / 3) % std::min<size_t>(4, bad.size()))] ^= static_cast<std::byte>(0x01); break;
            }
            try
            {
                (void)T::dec(bad);
            }
            catch (const std::exception&)
            {
            }
            ctx.label("after-rejected-decode");
        }
        // 1.x encoders/decoders reject what the format reserves: empty labels on populated slots (decoder: accepted), etc.
        typename T::V back;
        try
        {
            back = T::dec(to_lib(blob));
        }
        catch (const std::exception& e)
        {
            // the only documented decoder-side rejections of a layout-conforming blob: none for 2.x bodies of the
            // kinds with a tail; 2.x track data / overview with trailing bytes are reported by C03/C04, so here
            // they count as a disagreement too.
            VF_CHECK(false, kn << ": library rejects a blob written by the independent encoder (" << e.what() << ")\n  value " << canon(v));
        }
        std::string want = canon(project(v)), got = canon(back);
        VF_CHECK(want == got, kn << ": library decodes the independent encoding differently\n  want " << want << "\n  got  " << got);
    }
};
static void prop_c02_dec(const Case& c, Ctx& ctx)
{
    S s(c[0]);
    int kind = static_cast<int>(s.below(ref::KIND_COUNT));
    dispatch<C02Dec>(kind, s, ctx);
}

// ------------------------------------------------------------------------------------------------------ C04
template <int K>
struct C04
{
    static void run(S& s, Ctx& ctx)
    {
        using T = KT<K>;
        GenOpts o;
        o.whole_domain = false;
        auto v = T::gen(s, ctx, o);
        std::string kn = ref::kind_name(K);
        ctx.label("kind=" + kn);
        ref::Toks t = toks(v);
        bool odd_flag = false;
        size_t flag_tok = 0;
        if (K == ref::V2_QUICK_CUES)
        {
            flag_tok = 1 + 6 * t[0].v + 1;
            if (s.coin())
            {
                t[flag_tok].v = s.below(256);
                odd_flag = t[flag_tok].v > 1;
            }
        }
        int level = static_cast<int>(s.below(11)) - 1;
        ref::Bytes blob;
        try
        {
            blob = ref::encode(K, t, level);
        }
        catch (const ref::Malformed&)
        {
            ctx.label("not-representable");
            return;
        }
        ref::Bytes payload = ref::payload_of(K, blob);
        ctx.describe = kn + " payload=" + hex(payload.data(), payload.size(), 96) + " level=" + std::to_string(level);
        ctx.key = ctx.describe;
        bool tail = has_extra(v);
        size_t n = entry_count(v);
        bool count_ne_8 = (K == ref::V2_QUICK_CUES || K == ref::V2_LOOPS) && n != 8;
        if (tail)
            ctx.label(kn + ":tail");
        if (count_ne_8)
            ctx.label("count!=8");
        if (odd_flag)
            ctx.label("flag>1");
        typename T::V back;
        try
        {
            back = T::dec(to_lib(blob));
        }
        catch (const std::exception&)
        {
            ctx.label(kn + ":decoder-rejected");  // the property only speaks about accepted byte strings
            return;
        }
        ctx.label(kn + ":accepted");
        ctx.nontrivial = tail || count_ne_8 || odd_flag || K == ref::V2_BEAT_DATA;
        LibBytes re;
        try
        {
            re = T::enc(back);
        }
        catch (const std::exception& e)
        {
            VF_CHECK(false, kn << ": re-encoding a decoded foreign blob throws: " << e.what());
        }
        ref::Bytes re_payload;
        try
        {
            re_payload = ref::payload_of(K, to_ref(re));
        }
        catch (const ref::Malformed& e)
        {
            VF_CHECK(false, kn << ": re-encoded blob is not well-framed: " << e.what());
        }
        ref::Bytes expect = payload;
        if (K == ref::V2_QUICK_CUES)
        {
            // locate the boolean byte through the layout (independent of the library): normalised non-zero -> 1
            ref::Toks tt = t;
            if (tt[flag_tok].v > 1)
                tt[flag_tok].v = 1;
            expect = ref::write_payload(ref::layout(K), tt);
        }
        if (expect != re_payload)
        {
            size_t d = 0;
            while (d < expect.size() && d < re_payload.size() && expect[d] == re_payload[d])
                ++d;
            VF_CHECK(false, kn << ": re-encoded payload differs at byte " << d << " (sizes " << expect.size() << " vs " << re_payload.size()
                               << ")\n  orig " << hex(expect.data(), expect.size(), 120) << "\n  re   " << hex(re_payload.data(), re_payload.size(), 120));
        }
    }
};
template <int K>
struct C04Skip
{
    static void run(S&, Ctx&) {}
};
static void prop_c04(const Case& c, Ctx& ctx)
{
    S s(c[0]);
    int kind = static_cast<int>(s.below(5));  // the five 2.x kinds are 0..4
    switch (kind)
    {
        case 0: C04<0>::run(s, ctx); break;
        case 1: C04<1>::run(s, ctx); break;
        case 2: C04<2>::run(s, ctx); break;
        case 3: C04<3>::run(s, ctx); break;
        default: C04<4>::run(s, ctx); break;
    }
}

// ------------------------------------------------------------------------------------------------------ C05
static const std::vector<uint64_t>& count_edges()
{
    static const std::vector<uint64_t> e = {0x8000000000000000ull, 0xffffffffffffffffull, 0, 1, 2, 7, 8, 9, 32768, 32769, 1ull << 31, 1ull << 32,
                                            (1ull << 59), (1ull << 59) + 1, (1ull << 61), (1ull << 61) + 1, 0x7fffffffffffffffull,
                                            0x2aaaaaaaaaaaaaaaull, 0x5555555555555555ull, 0x1555555555555555ull};
    return e;
}
static void put_u64(ref::Bytes& b, size_t off, uint64_t v, bool le)
{
    for (int i = 0; i < 8 && off + i < b.size(); ++i)
        b[off + i] = static_cast<uint8_t>(le ? v >> (8 * i) : v >> (8 * (7 - i)));
}
// Feeds one byte string to decoder K (and, for compressed kinds, to the bare decompressor) under the C05 oracle.
template <int K>
static void c05_feed(const ref::Bytes& blob, Ctx& ctx, const std::string& kn, bool lab = true)
{
    using T = KT<K>;
    LibBytes lb = to_lib(blob);
    bool returned = false;
    try
    {
        auto back = T::dec(lb);
        returned = true;
        (void)back;
    }
    catch (const std::exception&)
    {
    }
    catch (...)
    {
        VF_CHECK(false, kn << ": decoder threw something not derived from std::exception");
    }
    if (lab)
        ctx.label(returned ? kn + ":returned" : kn + ":rejected");
    ctx.nontrivial = true;
    // also feed the bare decompressor
    if (ref::compressed(K))
    {
        try
        {
            auto out = djinterop::engine::zlib_uncompress(lb);
            if (lab)
                ctx.label("zlib:returned");
            // the decompressor's answer must be what one-shot zlib says, whenever that is well-defined
            try
            {
                ref::Unframed u = ref::unframe(blob);
                if (!u.no_data)
                    VF_CHECK(to_ref(out) == u.payload, "zlib_uncompress returns different bytes than one-shot inflate");
            }
            catch (const ref::Malformed&)
            {
            }
        }
        catch (const std::exception&)
        {
            if (lab)
                ctx.label("zlib:rejected");
        }
        catch (...)
        {
            VF_CHECK(false, "zlib_uncompress threw something not derived from std::exception");
        }
    }
}
template <int K>
struct C05
{
    static void run(S& s, Ctx& ctx)
    {
        using T = KT<K>;
        std::string kn = ref::kind_name(K);
        ctx.label("kind=" + kn);
        GenOpts o;
        o.whole_domain = false;
        o.sorted_grids = true;
        Ctx scratch;  // labels of the seed value are not interesting here
        scratch.tier = "quick";
        auto v = T::gen(s, scratch, o);
        ref::Toks t = toks(v);
        ref::Bytes payload;
        try
        {
            payload = ref::write_payload(ref::layout(K), t);
        }
        catch (const ref::Malformed&)
        {
            payload.assign(40, 0);
        }
        // ---- payload mutation
        std::string mut;
        int nm = 1 + static_cast<int>(s.below(2));
        for (int m = 0; m < nm; ++m)
        {
            switch (s.below(8))
            {
                case 0: mut += "none "; break;
                case 1:
                {
                    size_t p = s.coin() ? s.below(payload.size() + 1) : (payload.size() - std::min<size_t>(payload.size(), s.below(40)));
                    payload.resize(p);
                    mut += "trunc@" + std::to_string(p) + " ";
                    break;
                }
                case 2:
                case 3:
                {  // overwrite a count field with an edge value
                    static const size_t offs[] = {0, 8, 17, 16, 25};
                    size_t off = s.below(3) == 0 ? s.below(payload.size() + 1) : offs[s.below(5)];
                    if (s.below(4) == 0 && payload.size() > 40)  // second grid count
                        off = 17 + 8 + 24 * (s.below(4));
                    uint64_t e = s.coin() ? count_edges()[s.below(count_edges().size())] : s.below(70000);
                    if (s.below(5) == 0)
                        e = entry_count(v) + s.below(3) - 1;  // fit-1, fit, fit+1
                    bool le = K == ref::V2_LOOPS || K == ref::V1_LOOPS;
                    put_u64(payload, off, e, le);
                    char b[64];
                    snprintf(b, sizeof b, "count@%zu=%llx ", off, (unsigned long long)e);
                    mut += b;
                    ctx.label("mut:count");
                    break;
                }
                case 4:
                    if (!payload.empty())
                    {
                        size_t p = s.below(payload.size());
                        static const uint8_t vals[] = {0x00, 0xff, 0x80, 0x01, 0x7f};
                        uint8_t nv = s.coin() ? vals[s.below(5)] : static_cast<uint8_t>(payload[p] ^ (1u << s.below(8)));
                        payload[p] = nv;
                        mut += "byte@" + std::to_string(p) + " ";
                    }
                    break;
                case 5:
                {
                    size_t n = 1 + s.below(40);
                    Bulk b(s.raw());
                    bool z = s.coin();
                    for (size_t i = 0; i < n; ++i)
                        payload.push_back(z ? 0 : static_cast<uint8_t>(b.next()));
                    mut += "append" + std::to_string(n) + " ";
                    break;
                }
                case 6:
                {  // tiny payload of arbitrary bytes
                    size_t n = s.below(48);
                    Bulk b(s.raw());
                    payload.clear();
                    for (size_t i = 0; i < n; ++i)
                        payload.push_back(static_cast<uint8_t>(b.next()));
                    mut += "tiny" + std::to_string(n) + " ";
                    break;
                }
                default:
                {  // exact minimum-size payloads with a non-zero count
                    static const size_t mins[] = {44, 33, 25, 8, 27, 28, 33, 30, 27, 25, 8};
                    payload.assign(mins[K] + s.below(3), 0);
                    size_t off = (K == ref::V2_BEAT_DATA || K == ref::V1_BEAT_DATA) ? (s.coin() ? 17 : 25) : 0;
                    put_u64(payload, off, 1 + s.below(3), K == ref::V2_LOOPS || K == ref::V1_LOOPS);
                    if (K == ref::V2_OVERVIEW || K == ref::V1_OVERVIEW || K == ref::V1_HIGH_RES)
                        put_u64(payload, 8, payload[7], false);
                    mut += "minimal ";
                    break;
                }
            }
        }
        // ---- framing
        ref::Bytes blob;
        std::string fr;
        if (!ref::compressed(K))
        {
            blob = payload;
            fr = "raw";
        }
        else
        {
            int level = static_cast<int>(s.below(11)) - 1;
            blob = ref::frame(payload, level);
            switch (s.below(10))
            {
                case 0:
                case 1:
                case 2:
                case 3: fr = "framed"; break;
                case 4:
                {
                    static const uint32_t px[] = {0, 1, 0x7fffffff, 0xffffffff, 0x80000000, 0x40000000, 0x01000000};
                    uint32_t n = static_cast<uint32_t>(payload.size());
                    uint32_t p = s.coin() ? px[s.below(7)] : (s.coin() ? n + 1 : n - 1);
                    blob[0] = p >> 24;
                    blob[1] = p >> 16;
                    blob[2] = p >> 8;
                    blob[3] = p;
                    fr = "prefix=" + std::to_string(p);
                    ctx.label("frame:prefix");
                    break;
                }
                case 5:
                {
                    size_t q = 4 + s.below(blob.size() - 3);
                    if (s.coin())
                        q = blob.size() - 1 - s.below(std::min<size_t>(6, blob.size() - 4));
                    blob.resize(q);
                    fr = "zlib-trunc@" + std::to_string(q);
                    ctx.label("frame:truncated-stream");
                    break;
                }
                case 6:
                {
                    size_t n = 1 + s.below(20);
                    Bulk b(s.raw());
                    for (size_t i = 0; i < n; ++i)
                        blob.push_back(static_cast<uint8_t>(b.next()));
                    fr = "garbage-after-stream";
                    break;
                }
                case 7:
                {
                    size_t n = s.below(9);
                    Bulk b(s.raw());
                    blob.clear();
                    for (size_t i = 0; i < n; ++i)
                        blob.push_back(static_cast<uint8_t>(b.next()));
                    if (n >= 4 && s.coin())
                        blob[0] = 0;
                    fr = "rawbytes" + std::to_string(n);
                    ctx.label("frame:short-raw");
                    break;
                }
                case 8:
                    if (blob.size() > 5)
                    {
                        size_t p = 4 + s.below(blob.size() - 4);
                        blob[p] ^= static_cast<uint8_t>(1u << s.below(8));
                        fr = "zlib-flip@" + std::to_string(p);
                        ctx.label("frame:corrupt-stream");
                    }
                    break;
                default:
                {  // stored (level 0) stream cut inside a block, or prefix-only
                    blob = ref::frame(payload, 0);
                    blob.resize(4 + s.below(blob.size() - 3));
                    fr = "stored-trunc";
                    ctx.label("frame:truncated-stream");
                    break;
                }
            }
        }
        ctx.describe = kn + " [" + mut + "| " + fr + "] blob=" + hex(blob.data(), blob.size(), 120);
        ctx.key = kn + hex(blob.data(), blob.size(), 100000);
        c05_feed<K>(blob, ctx, kn);
    }
};
static void prop_c05(const Case& c, Ctx& ctx)
{
    S s(c[0]);
    int kind = static_cast<int>(s.below(ref::KIND_COUNT));
    dispatch<C05>(kind, s, ctx);
}

// ------------------------------------------------------------------------------------------------------ C05.enum
// Deterministic, complete enumeration of the near neighbourhood of a fixed set of valid blobs (the part of C05's quantifier that
// says "exhaustive over short inputs, all truncations and single-byte corruptions of valid blobs, all boundary values of every
// embedded count/length field").  Case i is a pure function of i: no randomness is involved.  For every kind a fixed list of seed
// payloads is made by the value generators from fixed choice streams (small values, so that every position can be visited); for
// every seed:  T every truncation of the payload (re-framed);  B every payload position x {^0x01, ^0x80, =0x00, =0xff} (re-framed);
// Z every truncation of the framed blob;  F every position of the framed blob x the same four byte mutations;  C every embedded
// count field x every boundary value (re-framed);  P the 4-byte length prefix x boundary values;  S every truncation of the
// level-0 (stored blocks) frame.  Globally: X every byte string of length <= 2 into each of the 12 entry points (in blocks of 257
// sharing the first byte), Y a length prefix followed by every string of length <= 2 (compressed kinds) / an 8-byte count followed by
// every string of length <= 2 (loops).
struct EnumSeed
{
    int kind;
    ref::Bytes payload;
    ref::Bytes framed;   // default level (== payload for loops)
    ref::Bytes stored;   // level 0
    std::vector<size_t> count_offs;
    size_t entries;
};
struct EnumSeg
{
    char fam;
    int seed;        // index into seeds, or the entry point (0..11) for X / Y
    uint64_t n;
    uint64_t start;
};
struct EnumSpace
{
    std::vector<EnumSeed> seeds;
    std::vector<EnumSeg> segs;
    uint64_t total = 0;
    std::string error;
};
template <int K>
struct MkSeeds
{
    static void run(EnumSpace& sp, size_t per_kind, size_t max_payload)
    {
        using T = KT<K>;
        std::set<ref::Bytes> seen;
        size_t got = 0;
        for (uint64_t cand = 0; cand < 4000 && got < per_kind; ++cand)
        {
            vf::Record rec;
            Bulk b(0xC05E0000ull + 7919ull * K + cand);
            for (int i = 0; i < 400; ++i)
                rec.push_back(b.next());
            S s(rec);
            GenOpts o;
            o.whole_domain = false;
            o.sorted_grids = true;
            Ctx scratch;
            scratch.tier = "quick";
            ref::Bytes payload;
            size_t entries = 0;
            try
            {
                auto v = T::gen(s, scratch, o);
                entries = entry_count(v);
                payload = ref::write_payload(ref::layout(K), toks(v));
            }
            catch (const std::exception&)
            {
                continue;
            }
            if (payload.empty() || payload.size() > max_payload || !seen.insert(payload).second)
                continue;
            // alternate: seeds with and without repeated entries (fixed-size kinds have none)
            bool fixed = K == ref::V2_TRACK_DATA || K == ref::V1_TRACK_DATA;
            if (!fixed && got % 3 != 0 && entries == 0)
                continue;
            EnumSeed e;
            e.kind = K;
            e.payload = payload;
            e.framed = ref::compressed(K) ? ref::frame(payload, -1) : payload;
            if (ref::compressed(K))
                e.stored = ref::frame(payload, 0);
            e.entries = entries;
            switch (K)
            {
                case ref::V2_BEAT_DATA:
                case ref::V1_BEAT_DATA:
                {
                    e.count_offs.push_back(17);
                    // the second grid's count sits behind the first grid
                    uint64_t n1 = 0;
                    for (int i = 0; i < 8 && 17 + i < (int)payload.size(); ++i)
                        n1 = (n1 << 8) | payload[17 + i];
                    if (n1 < 100000 && 25 + 24 * n1 + 8 <= payload.size())
                        e.count_offs.push_back(25 + 24 * n1);
                    break;
                }
                case ref::V2_QUICK_CUES:
                case ref::V1_QUICK_CUES:
                case ref::V2_LOOPS:
                case ref::V1_LOOPS: e.count_offs.push_back(0); break;
                case ref::V2_OVERVIEW:
                case ref::V1_OVERVIEW:
                case ref::V1_HIGH_RES:
                    e.count_offs.push_back(0);
                    e.count_offs.push_back(8);
                    break;
                default: break;
            }
            sp.seeds.push_back(std::move(e));
            ++got;
        }
        if (got < per_kind)
            sp.error += std::string(ref::kind_name(K)) + ": only " + std::to_string(got) + " enumeration seeds; ";
    }
};
static uint8_t enum_apply(uint8_t old, int op)
{
    switch (op)
    {
        case 0: return old ^ 0x01;
        case 1: return old ^ 0x80;
        case 2: return 0x00;
        default: return 0xff;
    }
}
static std::vector<uint64_t> enum_count_values(const EnumSeed& e)
{
    std::vector<uint64_t> v = count_edges();
    v.push_back(e.entries - 1);
    v.push_back(e.entries);
    v.push_back(e.entries + 1);
    v.push_back(0xfffffffffffffffeull);
    v.push_back(0x0555555555555555ull);  // 3 * v wraps to -1 in 64 bits
    v.push_back(0x0aaaaaaaaaaaaaabull);  // 24 * v wraps to a small number
    return v;
}
static std::vector<uint32_t> enum_prefixes(uint32_t n)
{
    return {0, 1, n - 1, n + 1, 2 * n, 0x7fffffffu, 0x80000000u, 0xffffffffu, 0x40000000u, 0x00010000u};
}
static EnumSpace build_enum_space(size_t per_kind, size_t max_payload)
{
    EnumSpace sp;
    for (int K = 0; K < ref::KIND_COUNT; ++K)
        dispatch<MkSeeds>(K, sp, per_kind, max_payload);
    auto push = [&](char fam, int seed, uint64_t n)
    {
        if (!n)
            return;
        sp.segs.push_back({fam, seed, n, sp.total});
        sp.total += n;
    };
    for (size_t i = 0; i < sp.seeds.size(); ++i)
    {
        const EnumSeed& e = sp.seeds[i];
        bool z = ref::compressed(e.kind);
        push('T', (int)i, e.payload.size());  // truncations to 0..size-1 bytes
        push('B', (int)i, 4 * e.payload.size());
        if (z)
        {
            push('Z', (int)i, e.framed.size());
            push('F', (int)i, 4 * e.framed.size());
            push('P', (int)i, enum_prefixes(0).size());
            push('S', (int)i, e.stored.size());
        }
        push('C', (int)i, e.count_offs.size() * enum_count_values(e).size());
    }
    for (int ep = 0; ep < 12; ++ep)
        push('X', ep, 257);  // block b < 256: {b}, {b,x} for all x; block 256: the empty string
    for (int ep = 0; ep < 11; ++ep)
        push('Y', ep, (ref::compressed(ep) ? 4 : 4) * 256 + 4);
    return sp;
}
static const EnumSpace& enum_space(bool large)
{
    static EnumSpace small = build_enum_space(6, 420);
    static EnumSpace big;
    static bool big_built = false;
    if (large && !big_built)
    {
        big = build_enum_space(30, 1500);
        big_built = true;
    }
    return large ? big : small;
}
template <int K>
struct EnumFeed
{
    static void run(const ref::Bytes& blob, Ctx& ctx, bool lab) { c05_feed<K>(blob, ctx, ref::kind_name(K), lab); }
};
static void enum_feed_ep(int ep, const ref::Bytes& blob, Ctx& ctx, bool lab)
{
    if (ep < 11)
    {
        dispatch<EnumFeed>(ep, blob, ctx, lab);
        return;
    }
    LibBytes lb = to_lib(blob);
    try
    {
        auto out = djinterop::engine::zlib_uncompress(lb);
        try
        {
            ref::Unframed u = ref::unframe(blob);
            if (!u.no_data)
                VF_CHECK(to_ref(out) == u.payload, "zlib_uncompress returns different bytes than one-shot inflate");
        }
        catch (const ref::Malformed&)
        {
        }
    }
    catch (const std::exception&)
    {
    }
    catch (...)
    {
        VF_CHECK(false, "zlib_uncompress threw something not derived from std::exception");
    }
    ctx.nontrivial = true;
}
static void prop_c05_enum_impl(const Case& c, Ctx& ctx, bool large)
{
    const EnumSpace& sp = enum_space(large);
    VF_CHECK(sp.error.empty(), "generator defect: " << sp.error);
    uint64_t idx = c.empty() || c[0].empty() ? 0 : c[0][0];
    VF_CHECK(idx < sp.total, "index outside the enumeration");
    size_t lo = 0, hi = sp.segs.size();
    while (hi - lo > 1)
    {
        size_t mid = (lo + hi) / 2;
        if (sp.segs[mid].start <= idx)
            lo = mid;
        else
            hi = mid;
    }
    const EnumSeg& g = sp.segs[lo];
    uint64_t j = idx - g.start;
    std::string fam(1, g.fam);
    if (g.fam == 'X' || g.fam == 'Y')
    {
        int ep = g.seed;
        std::string kn = ep < 11 ? ref::kind_name(ep) : "zlib_uncompress";
        ctx.label("kind=" + kn);
        ctx.label("enum:" + fam);
        ref::Bytes head;
        uint64_t blocks = 256;
        if (g.fam == 'Y')
        {
            // 4 heads x 256 first bytes, then the 4 bare heads
            static const uint8_t zheads[4][4] = {{0, 0, 0, 1}, {0, 0, 0, 2}, {0, 0, 1, 0}, {0x7f, 0xff, 0xff, 0xff}};
            static const uint8_t lheads[4] = {0, 1, 2, 255};
            uint64_t h = j < 1024 ? j / 256 : j - 1024;
            if (ref::compressed(ep))
                head.assign(zheads[h], zheads[h] + 4);
            else
            {
                head.assign(8, 0);
                head[0] = lheads[h];
            }
            if (j >= 1024)
                blocks = 0;  // just the head
            j = j % 256;
        }
        else if (j == 256)
            blocks = 0;  // the empty string
        ctx.describe = kn + " enum " + fam + " head=" + hex(head.data(), head.size(), 16) + (blocks ? " first=" + std::to_string(j) : " bare");
        ctx.key = ctx.describe;
        if (!blocks)
        {
            enum_feed_ep(ep, head, ctx, true);
            return;
        }
        ref::Bytes b = head;
        b.push_back(static_cast<uint8_t>(j));
        enum_feed_ep(ep, b, ctx, true);
        b.push_back(0);
        for (int x = 0; x < 256; ++x)
        {
            b.back() = static_cast<uint8_t>(x);
            try
            {
                enum_feed_ep(ep, b, ctx, false);
            }
            catch (const vf::Fail& f)
            {
                throw vf::Fail(std::string(f.what()) + " [input " + hex(b.data(), b.size(), 32) + "]");
            }
        }
        return;
    }
    const EnumSeed& e = sp.seeds[g.seed];
    std::string kn = ref::kind_name(e.kind);
    ctx.label("kind=" + kn);
    ctx.label("enum:" + fam);
    ref::Bytes blob;
    std::string what;
    bool z = ref::compressed(e.kind);
    auto reframe = [&](const ref::Bytes& p) { return z ? ref::frame(p, -1) : p; };
    switch (g.fam)
    {
        case 'T':
        {
            ref::Bytes p(e.payload.begin(), e.payload.begin() + j);
            blob = reframe(p);
            what = "payload cut to " + std::to_string(j) + "/" + std::to_string(e.payload.size());
            break;
        }
        case 'B':
        {
            ref::Bytes p = e.payload;
            p[j / 4] = enum_apply(p[j / 4], (int)(j % 4));
            blob = reframe(p);
            what = "payload byte " + std::to_string(j / 4) + " op " + std::to_string(j % 4);
            break;
        }
        case 'Z':
            blob.assign(e.framed.begin(), e.framed.begin() + j);
            what = "frame cut to " + std::to_string(j) + "/" + std::to_string(e.framed.size());
            break;
        case 'S':
            blob.assign(e.stored.begin(), e.stored.begin() + j);
            what = "stored frame cut to " + std::to_string(j) + "/" + std::to_string(e.stored.size());
            break;
        case 'F':
            blob = e.framed;
            blob[j / 4] = enum_apply(blob[j / 4], (int)(j % 4));
            what = "frame byte " + std::to_string(j / 4) + " op " + std::to_string(j % 4);
            break;
        case 'P':
        {
            blob = e.framed;
            uint32_t p = enum_prefixes(static_cast<uint32_t>(e.payload.size()))[j];
            blob[0] = p >> 24;
            blob[1] = p >> 16;
            blob[2] = p >> 8;
            blob[3] = p;
            what = "prefix=" + std::to_string(p);
            break;
        }
        default:
        {
            auto vals = enum_count_values(e);
            size_t off = e.count_offs[j / vals.size()];
            uint64_t v = vals[j % vals.size()];
            ref::Bytes p = e.payload;
            put_u64(p, off, v, e.kind == ref::V2_LOOPS || e.kind == ref::V1_LOOPS);
            blob = reframe(p);
            char b[64];
            snprintf(b, sizeof b, "count@%zu=%llx", off, (unsigned long long)v);
            what = b;
            ctx.label("mut:count");
            break;
        }
    }
    ctx.describe = kn + " enum seed " + std::to_string(g.seed) + " [" + what + "] blob=" + hex(blob.data(), blob.size(), 120);
    ctx.key = kn + hex(blob.data(), blob.size(), 100000);
    enum_feed_ep(e.kind, blob, ctx, true);
}
static void prop_c05_enum(const Case& c, Ctx& ctx) { prop_c05_enum_impl(c, ctx, false); }
static void prop_c05_enum_large(const Case& c, Ctx& ctx) { prop_c05_enum_impl(c, ctx, true); }

int main(int argc, char** argv)
{
    std::vector<vf::PropSpec> specs;
    auto add = [&](const char* id, vf::PropertyFn fn, int len)
    {
        vf::PropSpec p;
        p.id = id;
        p.fn = fn;
        p.rec_min = p.rec_max = 1;
        p.rec_len = len;
        p.watchdog_s = 30;
        specs.push_back(p);
    };
    add("C03", prop_c03, 160);
    add("C03.reg", prop_c03_reg, 1);
    add("C02.enc", prop_c02_enc, 160);
    add("C02.dec", prop_c02_dec, 200);
    add("C04", prop_c04, 180);
    add("C05", prop_c05, 200);
    add("C05.enum", prop_c05_enum, 1);
    specs.back().enum_total = enum_space(false).total;
    add("C05.enumL", prop_c05_enum_large, 1);
    {
        // the large space costs a second to build: only when it is asked for
        bool need = argc > 1 && std::string(argv[1]) == "list";
        for (int i = 1; i < argc; ++i)
            need = need || std::string(argv[i]) == "C05.enumL";
        specs.back().enum_total = need ? enum_space(true).total : 1;
    }
    return vf::pbt_main(argc, argv, specs);
}
