import glob, json, os, re, shutil, subprocess, sys, tempfile, time, hashlib
from concurrent.futures import ThreadPoolExecutor
import build as B
import fuzz as F
from registry import HARNESSES, CHECKS, RULES, ASSUMPTIONS
HARNESSES.update(F.harness_defs())

ROOT = B.ROOT
EVID = os.environ.get("VERIF_EVIDENCE_DIR") or os.path.join(ROOT, "evidence")   # sensitivity experiments write elsewhere
ASAN_OPTS = "handle_abort=1:allocator_may_return_null=1:max_allocation_size_mb=1024:detect_leaks=0:abort_on_error=0:exitcode=3"
UBSAN_OPTS = "print_stacktrace=1:halt_on_error=1:exitcode=3"


def env_for_run():
    e = dict(os.environ)
    e["ASAN_OPTIONS"] = ASAN_OPTS
    e["UBSAN_OPTIONS"] = UBSAN_OPTS
    e["VERIF_ROOT"] = ROOT
    e["VERIF_REPO"] = B.REPO
    return e


def load_known():
    p = os.path.join(ROOT, "known_findings.json")
    if not os.path.exists(p):
        return []
    return json.load(open(p))["findings"]


def avoid_list(pid):
    """Trigger predicates of still-open known findings that affect property pid."""
    out = []
    for f in load_known():
        if f.get("status") != "known":
            continue
        for t in f.get("triggers", []):
            if pid in t.get("properties", []):
                out.append(t["predicate"])
    return sorted(set(out))


def get_harness(name):
    h = HARNESSES[name]
    return B.build_harness(name, h["sources"], h.get("variant", "san"), extra_flags=h.get("flags", ()),
                           libs=h.get("libs", ("-lrapidcheck", "-lsqlite3", "-lz")), with_shim=h.get("shim", False),
                           link_flags=h.get("link_flags", ()))


def part_handlers(p):
    """(run, replay) for parts that are not owned-loop pbt campaigns."""
    if p.get("kind") == "fuzz":
        return F.make_runner(get_harness, p["targets"], p["quick_runs"], p["thorough_runs"])
    if p.get("kind") == "custom":
        return p["run"], p.get("replay")
    raise KeyError(p.get("kind"))


def find_part(chk, path):
    sub = os.path.basename(path).split("-")[0].split("__")[0]
    for p in chk["parts"]:
        if sub == p["prop"] or sub.startswith(p["prop"] + "_"):
            return p
    return chk["parts"][0]


def crash_signature(logtext):
    """Failure class of a crash: the most specific line available, without addresses / line-noise that varies between runs."""
    for pat in (r"(runtime error: [^\n]*)", r"(Assertion [^\n]* failed)", r"(VF-HANG[^\n]*)", r"(VF-TERMINATE[^\n]*)", r"(VF-SIGNAL[^\n]*)",
                r"(terminate called [^\n]*)"):
        m = re.search(pat, logtext)
        if m:
            return re.sub(r"0x[0-9a-f]+", "0x?", m.group(1))[:160]
    m = re.search(r"SUMMARY: \w+Sanitizer: ([\w-]+)", logtext)
    if m:
        return "sanitizer:" + m.group(1)   # e.g. stack-overflow, heap-buffer-overflow, SEGV (the location varies between runs)
    return "unknown-crash"


def crash_signature_full(logtext):
    m = re.search(r"SUMMARY: \w+Sanitizer: (.*)", logtext)
    if m:
        return re.sub(r"0x[0-9a-f]+", "0x?", m.group(1))[:200]
    return crash_signature(logtext)


def parse_range(path):
    """A history replay file ('vfrange 1'): a run of consecutive generated cases in ONE process, for failures that need state left
    behind by earlier cases (e.g. process-wide caches in the library).  Returns a dict or None."""
    try:
        lines = [l.strip() for l in open(path, errors="replace") if l.strip() and not l.startswith("#")]
    except OSError:
        return None
    if not lines or lines[0] != "vfrange 1":
        return None
    d = {}
    for l in lines[1:]:
        k, _, v = l.partition(" ")
        d[k] = v
    return d


def write_range(path, sub, seed, start, count, maxsize, tier, extra, header=""):
    with open(path, "w") as f:
        f.write(header)
        f.write("vfrange 1\nprop %s\nseed %d\nstart %d\ncount %d\nmaxsize %d\ntier %s\n" % (sub, seed, start, count, maxsize, tier))
        if extra:
            f.write("extra %s\n" % " ".join(extra))


def run_range(exe, rng, avoid, timeout=900):
    tmpd = tempfile.mkdtemp(prefix="verif-range-", dir="/dev/shm" if os.path.isdir("/dev/shm") else None)
    try:
        rc, logp = run_segment(exe, rng["prop"], int(rng["seed"]), int(rng["start"]), int(rng["count"]), int(rng["maxsize"]),
                               os.path.join(tmpd, "r"), avoid, rng.get("tier", "quick"), timeout, rng.get("extra", "").split())
        out = open(logp, errors="replace").read()[-4000:]
        return (0 if rc == 0 else (rc if rc != 124 else 3)), out
    finally:
        shutil.rmtree(tmpd, ignore_errors=True)


def run_replay(exe, sub, casefile, avoid, tier, timeout=120, outprefix=None):
    rng = parse_range(casefile)
    if rng:
        return run_range(exe, rng, avoid, timeout=max(timeout, 900))
    cmd = [exe, "replay", "--prop", sub, "--case", casefile, "--tier", tier]
    if avoid:
        cmd += ["--avoid", ",".join(avoid)]
    if outprefix:
        cmd += ["--out", outprefix]
    try:
        r = subprocess.run(cmd, stdout=subprocess.PIPE, stderr=subprocess.STDOUT, text=True, errors="replace",
                           timeout=timeout, env=env_for_run())
        return r.returncode, r.stdout
    except subprocess.TimeoutExpired as e:
        return 3, (e.stdout or b"").decode(errors="replace") if isinstance(e.stdout, bytes) else (e.stdout or "") + "\nVF-HANG: replay timeout"


def parse_case(path):
    recs = []
    for line in open(path, errors="replace"):
        if line.startswith("R"):
            recs.append([int(x) for x in line[1:].split()])
    return recs


def write_case(path, recs, header=""):
    with open(path, "w") as f:
        if header:
            f.write(header)
        f.write("vfcase 1\n")
        for r in recs:
            f.write("R" + "".join(" %d" % v for v in r) + "\n")


def minimise_crash(exe, sub, casefile, avoid, tier, sig, workdir, budget=20):
    """Delta-debugging over replay subprocesses for cases that kill the process (sanitizer, abort, hang)."""
    recs = parse_case(casefile)
    tmp = os.path.join(workdir, "min.case")
    steps = [0]

    def still(rs):
        if steps[0] >= budget:
            return False
        steps[0] += 1
        write_case(tmp, rs)
        rc, out = run_replay(exe, sub, tmp, avoid, tier, timeout=15)
        return rc == 3 and crash_signature(out) == sig

    progress = True
    while progress and steps[0] < budget:
        progress = False
        # drop records (keep record 0)
        k = len(recs) - 1
        while k >= 1:
            cand = recs[:k] + recs[k + 1:]
            if still(cand):
                recs = cand
                progress = True
            k -= 1
        # truncate / zero records
        for i in range(len(recs)):
            for cand_r in ([], recs[i][:len(recs[i]) // 2]):
                if len(cand_r) < len(recs[i]):
                    cand = recs[:i] + [cand_r] + recs[i + 1:]
                    if still(cand):
                        recs = cand
                        progress = True
                        break
        # zero single elements
        for i in range(len(recs)):
            for j in range(len(recs[i])):
                if recs[i][j] != 0 and steps[0] < budget:
                    cand = [list(r) for r in recs]
                    cand[i][j] = 0
                    if still(cand):
                        recs = cand
                        progress = True
    return recs, steps[0]


def validate_evidence(ev):
    schema_path = "/root/.vp/EVIDENCE.schema.json"
    try:
        r = subprocess.run(["python3-vt", "-c",
                            "import json,sys,jsonschema; jsonschema.validate(json.load(open(sys.argv[1])), json.load(open(sys.argv[2])))",
                            ev, schema_path], stdout=subprocess.PIPE, stderr=subprocess.STDOUT, text=True, timeout=60)
        if r.returncode == 0:
            return None
        if "No such file" in r.stdout or "ModuleNotFoundError" in r.stdout:
            raise FileNotFoundError
        return r.stdout[-800:]
    except (FileNotFoundError, subprocess.TimeoutExpired):
        d = json.load(open(ev))
        c = d.get("coverage", {})
        ok = (all(k in d for k in ("property_id", "tier", "seed", "level", "coverage", "wall_s")) and
              c.get("evaluations", 0) >= 1 and c.get("distinct_nontrivial", 0) >= 2 and c.get("samples") and "rule" in c)
        return None if ok else "structural check failed"


def run_segment(exe, sub, seed, start, count, maxsize, outprefix, avoid, tier, timeout, extra=()):
    cmd = [exe, "run", "--prop", sub, "--seed", str(seed), "--start", str(start), "--count", str(count),
           "--maxsize", str(maxsize), "--out", outprefix, "--tier", tier] + list(extra)
    if avoid:
        cmd += ["--avoid", ",".join(avoid)]
    logp = outprefix + ".log"
    with open(logp, "w") as lf:
        try:
            r = subprocess.run(cmd, stdout=lf, stderr=subprocess.STDOUT, timeout=timeout, env=env_for_run())
            rc = r.returncode
        except subprocess.TimeoutExpired:
            rc = 124
    return rc, logp


def worker_campaign(exe, sub, seed, start, count, maxsize, workdir, wid, avoid, tier, seg_timeout, extra=()):
    """Runs [start, start+count) for one worker, restarting after crashes. Returns dict of results."""
    res = dict(stats=[], hashes=[], fails=[], crashes=[], inconclusive=0)
    cur, end, seg = start, start + count, 0
    restarts = 0
    while cur < end:
        prefix = os.path.join(workdir, "%s.w%d.s%d" % (sub, wid, seg))
        rc, logp = run_segment(exe, sub, seed, cur, end - cur, maxsize, prefix, avoid, tier, seg_timeout, extra)
        seg += 1
        st = None
        if os.path.exists(prefix + ".json"):
            try:
                st = json.load(open(prefix + ".json"))
            except Exception:
                st = None
        if st:
            res["stats"].append(st)
        if os.path.exists(prefix + ".hashes"):
            res["hashes"].append(prefix + ".hashes")
        if rc in (0, 1):
            if st:
                for f in st.get("fails", []):
                    res["fails"].append(dict(f, first_index=st.get("first_index", cur), maxsize=maxsize, extra=list(extra)))
            break
        if rc == 124:
            res["inconclusive"] += 1
            B.log("segment timeout (inconclusive, not a violation): %s worker %d" % (sub, wid))
            break
        # crash / hang
        logtext = open(logp, errors="replace").read()[-20000:]
        crashcase = prefix + ".crash.case"
        idx = st["next_index"] if st else None
        if not os.path.exists(crashcase) or idx is None:
            res["crashes"].append(dict(sig="harness-died-without-dump rc=%d: %s" % (rc, logtext[-400:]), case=None, log=logp))
            break
        res["crashes"].append(dict(sig=crash_signature(logtext), full=crash_signature_full(logtext), case=crashcase, log=logp, index=idx))
        cur = idx + 1
        restarts += 1
        if restarts > 8:
            B.log("too many crashes in worker %d of %s; stopping this worker" % (wid, sub))
            break
    return res


def cmd_check(pid, tier, seed):
    t0 = time.time()
    chk = CHECKS[pid]
    os.makedirs(EVID, exist_ok=True)
    evpath = os.path.join(EVID, pid + ".json")
    if os.path.exists(evpath):
        os.unlink(evpath)
    workdir = os.path.join(B.BUILD, "work", "%s-%s-%d" % (pid, tier, os.getpid()))
    shutil.rmtree(workdir, ignore_errors=True)
    os.makedirs(workdir)
    replaydir = os.path.join(B.BUILD, "replay")
    os.makedirs(replaydir, exist_ok=True)
    try:
        with B.BuildLock():
            exes = {p["harness"]: get_harness(p["harness"]) for p in chk["parts"] if p.get("harness")}
    except B.BuildError as e:
        print("BUILD-FAILED\n" + str(e))
        return 2
    avoid = avoid_list(pid)
    violations, known_lines, notes = [], [], []
    merged = dict(evaluations=0, nontrivial=0, labels={}, excluded={}, samples=[], distinct=0, parts={})
    health_errors = []
    origin = {}   # replay file of a generated failure -> where in which worker segment it occurred

    # ---- 1. regression cases (must pass) and known-finding reproducers (expected to fail)
    for p in chk["parts"]:
        sub, exe = p["prop"], exes.get(p.get("harness"))
        if p.get("kind", "pbt") != "pbt":
            continue
        for case in sorted(glob.glob(os.path.join(ROOT, "regress", pid, "%s__*.case" % sub))):
            rc, out = run_replay(exe, sub, case, avoid, tier)
            merged["evaluations"] += 1
            if rc != 0:
                violations.append((case, "regression case fails: " + out.strip().splitlines()[-1][:300] if out.strip() else "regression case fails"))
    for f in load_known():
        for t in f.get("triggers", []):
            if pid not in t.get("properties", []) or not t.get("reproducer"):
                continue
            sub = t.get("prop", pid)
            part = next((p for p in chk["parts"] if p["prop"] == sub and p.get("kind", "pbt") == "pbt"), None)
            if not part:
                continue
            case = os.path.join(ROOT, t["reproducer"])
            rc, out = run_replay(exes[part["harness"]], sub, case, [], tier)   # avoidance OFF for the reproducer
            merged["evaluations"] += 1
            if f.get("status") == "known":
                if rc != 0:
                    known_lines.append("KNOWN-FINDING: property=%s %s [%s]" % (pid, t.get("what", f["title"]), f["id"]))
                else:
                    notes.append("known finding %s no longer reproduces for %s" % (f["id"], pid))
            else:  # fixed: suppresses nothing — must pass now
                if rc != 0:
                    last = [l for l in out.strip().splitlines() if l.startswith("REPLAY-FAIL") or "Sanitizer" in l or "runtime error" in l]
                    violations.append((case, "fixed finding %s has returned: %s" % (f["id"], (last or ["?"])[0][:300])))

    # ---- 2. generated campaigns
    for p in chk["parts"]:
        sub, exe = p["prop"], exes.get(p.get("harness"))
        if p.get("kind", "pbt") != "pbt":
            handler = part_handlers(p)[0]
            r = handler(pid, p, exe, tier, seed, workdir, avoid, env_for_run())
            merged["evaluations"] += r.get("evaluations", 0)
            merged["nontrivial"] += r.get("nontrivial", 0)
            merged["distinct"] += r.get("distinct", 0)
            merged["samples"] += r.get("samples", [])[:4]
            for k, v in r.get("labels", {}).items():
                merged["labels"][sub + ":" + k] = merged["labels"].get(sub + ":" + k, 0) + v
            merged["parts"][sub] = {k: r.get(k) for k in ("evaluations", "nontrivial", "distinct", "wall_s") if k in r}
            for v in r.get("violations", []):
                violations.append(v)
            health_errors += r.get("health", [])
            continue
        budget = p[tier]
        count, maxsize, workers = budget["count"], budget.get("maxsize", 100), budget.get("workers", 8)
        if count == "enum":
            # finite space: the harness says how many cases enumerate it completely
            lst = subprocess.run([exe, "list"], stdout=subprocess.PIPE, text=True, env=env_for_run()).stdout
            count = next((int(l.split()[1]) for l in lst.splitlines() if l.split() and l.split()[0] == sub), 0)
            if count == 0:
                health_errors.append("%s: enumeration size unknown" % sub)
        scale = float(os.environ.get("VERIF_SCALE", "1") or "1")   # sanity runs of a tier at a fraction of its budget (never registered)
        if scale != 1.0 and count:
            count = max(1, int(count * scale))
        share = (count + workers - 1) // workers
        seg_timeout = budget.get("timeout", 1500 if tier == "quick" else 6 * 3600)
        extra = budget.get("extra", [])
        with ThreadPoolExecutor(workers) as ex:
            futs = [ex.submit(worker_campaign, exe, sub, seed, w * share, min(share, max(0, count - w * share)), maxsize,
                              workdir, w, avoid, tier, seg_timeout, extra) for w in range(workers) if w * share < count]
            results = [f.result() for f in futs]
        hashes, pe, pn = [], 0, 0
        crash_by_sig = {}
        labels = {}
        for r in results:
            for st in r["stats"]:
                pe += st["evaluations"]
                pn += st["nontrivial"]
                for k, v in st["labels"].items():
                    labels[k] = labels.get(k, 0) + v
                for k, v in st["excluded_known"].items():
                    merged["excluded"][k] = merged["excluded"].get(k, 0) + v
                if len(merged["samples"]) < 10:
                    merged["samples"] += st["samples"][:2]
            hashes += r["hashes"]
            for f in r["fails"]:
                dst = os.path.join(replaydir, "%s-%s.case" % (sub, hashlib.sha1(open(f["replay"], "rb").read()).hexdigest()[:12]))
                shutil.copy(f["replay"], dst)
                violations.append((dst, f["msg"]))
                m = re.search(r"^# property \S+ seed \d+ index (\d+)", open(dst, errors="replace").readline())
                if m:
                    origin[dst] = dict(sub=sub, index=int(m.group(1)), first_index=f.get("first_index", 0), maxsize=f.get("maxsize", maxsize),
                                       extra=f.get("extra", []))
            for c in r["crashes"]:
                crash_by_sig.setdefault(c["sig"], []).append(c)
            if r["inconclusive"]:
                notes.append("%s: %d worker segment(s) hit the wall-clock limit (inconclusive)" % (sub, r["inconclusive"]))
        for k, v in labels.items():
            merged["labels"][sub + ":" + k] = v
        distinct = 0
        if hashes:
            out = subprocess.run([exe, "merge"] + hashes, stdout=subprocess.PIPE, text=True).stdout.strip()
            distinct = int(out or 0)
        merged["evaluations"] += pe
        merged["nontrivial"] += pn
        merged["distinct"] += distinct
        merged["parts"][sub] = dict(evaluations=pe, nontrivial=pn, distinct_nontrivial=distinct)
        # crashes: minimise one per signature
        for nsig, (sig, lst) in enumerate(crash_by_sig.items()):
            c = lst[0]
            if nsig >= 3:
                notes.append("%s: further crash class not minimised: %s (%d occurrence(s))" % (sub, sig, len(lst)))
                continue
            if not c.get("case"):
                health_errors.append("harness died without a dump: " + sig)
                continue
            recs, steps = minimise_crash(exe, sub, c["case"], avoid, tier, sig, workdir)
            dst = os.path.join(replaydir, "%s-crash-%s.case" % (sub, hashlib.sha1(json.dumps(recs).encode()).hexdigest()[:12]))
            write_case(dst, recs, "# property %s crash/hang: %s (%d occurrence(s), minimised in %d replays)\n" % (sub, sig, len(lst), steps))
            violations.append((dst, "crash/hang: " + c.get("full", sig)))
        # generator health: essential classes
        for lab in p.get("essential", []):
            if budget["count"] == 0:
                break   # this part does not run in this tier
            if labels.get(lab, 0) == 0:
                if any(lab in e for e in p.get("essential_unless_avoided", {}).get(lab, []) if e in avoid):
                    continue
                health_errors.append("%s: essential class '%s' never generated" % (sub, lab))

    # ---- 3. confirm violations (replay 3x), print.  One report per failure class (message up to the first ':' or '(').
    deduped, seen_classes = [], set()
    for path, msg in violations:
        cls = (os.path.basename(path).split("-")[0], re.sub(r"\d", "#", re.split(r"[:(]", msg, 1)[0])[:80])
        if cls in seen_classes:
            continue
        seen_classes.add(cls)
        deduped.append((path, msg))
    suppressed = len(violations) - len(deduped)
    if suppressed:
        notes.append("%d further failing case(s) of already reported failure classes not listed" % suppressed)
    violations = deduped
    confirmed = []
    CONFIRM_CAP = 6   # confirming is 3 replays per class, and a bisected run of cases for failures that depend on the process history:
                      # on a badly broken tree dozens of classes would take the best part of an hour; six confirmed reports decide the check
    for vi, (path, msg) in enumerate(violations):
        if len(confirmed) >= CONFIRM_CAP:
            notes.append("%d further failure class(es) not replayed: %d violations already confirmed" % (len(violations) - vi, len(confirmed)))
            break
        part = find_part(chk, path)
        if part.get("kind", "pbt") != "pbt":
            confirmed.append((path, msg))
            continue
        fails = 0
        for _ in range(3):
            rc, out = run_replay(exes[part["harness"]], part["prop"], path, avoid, tier)
            if rc != 0:
                fails += 1
        if fails == 3:
            confirmed.append((path, msg))
            continue
        # The case does not fail on its own.  The property quantifies over histories, and several libraries used one after the other
        # in one process are a history: replay the worker's run of cases up to and including the failing one in a single process.
        o = origin.get(path)
        hist_ok = False
        if o and o["index"] >= o["first_index"]:
            exe_h = exes[part["harness"]]
            lo, hi = o["first_index"], o["index"]          # invariant: the run [lo, hi] fails (checked first)
            def fails_from(start):
                rng = dict(prop=o["sub"], seed=str(seed), start=str(start), count=str(hi - start + 1), maxsize=str(o["maxsize"]), tier=tier,
                           extra=" ".join(o["extra"]))
                return run_range(exe_h, rng, avoid)[0] != 0
            if fails_from(lo):
                good, bad = lo, hi                          # shorten the run: latest start that still fails (bisection, <= 8 probes)
                for _ in range(8):
                    if bad - good <= 1:
                        break
                    mid = (good + bad) // 2
                    if fails_from(mid):
                        good = mid
                    else:
                        bad = mid
                hpath = os.path.join(replaydir, "%s-history-%s.case" % (o["sub"], hashlib.sha1(("%d-%d-%d" % (seed, good, hi)).encode()).hexdigest()[:12]))
                write_range(hpath, o["sub"], seed, good, hi - good + 1, o["maxsize"], tier, o["extra"],
                            "# property %s: case %d fails only after the earlier cases of this run in the same process (state kept between libraries)\n"
                            "# message: %s\n" % (o["sub"], hi, msg.replace("\n", " ")[:1500]))
                if all(run_replay(exe_h, o["sub"], hpath, avoid, tier)[0] != 0 for _ in range(3)):
                    confirmed.append((hpath, msg + "  [fails only after earlier cases in the same process: replay is a run of %d consecutive cases]" % (hi - good + 1)))
                    hist_ok = True
        if not hist_ok:
            health_errors.append("flaky: %s failed %d/3 replays (%s)" % (path, fails, msg[:100]))

    wall = time.time() - t0
    samples = merged["samples"][:10] or ["(none)"]
    ev = dict(property_id=pid, tier=tier, seed=seed, level=chk["level"],
              coverage=dict(evaluations=merged["evaluations"], distinct_nontrivial=merged["distinct"],
                            nontrivial_evaluations=merged["nontrivial"], rule=RULES[pid], samples=samples,
                            class_distribution=merged["labels"], excluded_known=merged["excluded"], parts=merged["parts"],
                            known_findings_reproduced=known_lines, notes=notes, exhaustive=bool(chk.get("exhaustive", False)),
                            exhaustive_scope=chk.get("exhaustive_scope", "")),
              assumptions=ASSUMPTIONS.get(pid, []), wall_s=round(wall, 2), violations=len(confirmed))
    tmp = evpath + ".tmp"
    json.dump(ev, open(tmp, "w"), indent=1)
    os.replace(tmp, evpath)
    err = validate_evidence(evpath)
    for l in known_lines:
        print(l)
    for n in notes:
        print("NOTE: " + n)
    print("SUMMARY property=%s tier=%s seed=%d evaluations=%d distinct_nontrivial=%d violations=%d wall=%.1fs" %
          (pid, tier, seed, merged["evaluations"], merged["distinct"], len(confirmed), wall))
    for path, msg in confirmed:
        print("  detail: " + msg.replace("\n", " ")[:700])
        print("VIOLATION property=%s replay=%s" % (pid, path))
    shutil.rmtree(workdir, ignore_errors=True)
    if confirmed:
        return 1
    if err:
        print("EVIDENCE-INVALID: " + err)
        return 2
    if health_errors:
        for h in health_errors:
            print("HARNESS-DEFECT: " + h)
        return 2
    return 0


def cmd_replay(pid, path):
    chk = CHECKS[pid]
    part = find_part(chk, path)
    if part.get("kind", "pbt") != "pbt":
        return part_handlers(part)[1](pid, part, None, path, env_for_run())
    with B.BuildLock():
        exe = get_harness(part["harness"])
    rc, out = run_replay(exe, part["prop"], path, avoid_list(pid), os.environ.get("VERIF_TIER", "quick"), timeout=600)
    print(out)
    if rc != 0:
        print("VIOLATION property=%s replay=%s" % (pid, path))
        return 1
    return 0


def cmd_setup():
    t0 = time.time()
    try:
        with B.BuildLock():
            for v in ("san", "fuzz"):
                B.build_lib(v)
            names = list(HARNESSES)
            # compile the harnesses in parallel (each is one or two large translation units)
            with ThreadPoolExecutor(8) as ex:
                list(ex.map(get_harness, names))
    except B.BuildError as e:
        print("BUILD-FAILED\n" + str(e))
        return 2
    print("setup ok in %.0fs" % (time.time() - t0))
    return 0


def cmd_baseline_off():
    import tempfile
    d = tempfile.mkdtemp(prefix="verif-baseline-", dir="/dev/shm" if os.path.isdir("/dev/shm") else None)
    try:
        r = subprocess.run(["cmake", "-G", "Ninja", "-S", B.REPO, "-B", d, "-DCMAKE_BUILD_TYPE=Release"], stdout=subprocess.PIPE, stderr=subprocess.STDOUT, text=True)
        if r.returncode != 0:
            print(r.stdout[-3000:])
            return 2
        r = subprocess.run(["cmake", "--build", d, "-j", "16"], stdout=subprocess.PIPE, stderr=subprocess.STDOUT, text=True)
        if r.returncode != 0:
            print(r.stdout[-3000:])
            return 2
        r = subprocess.run(["ctest", "--test-dir", d, "-j8", "--timeout", "900"], stdout=subprocess.PIPE, stderr=subprocess.STDOUT, text=True)
        print(r.stdout[-3000:])
        return 0 if r.returncode == 0 else 1
    finally:
        shutil.rmtree(d, ignore_errors=True)


def main(argv):
    if not argv:
        print(__doc__ or "usage: vcheck setup|check|replay|baseline-off")
        return 2
    cmd = argv[0]
    if cmd == "setup":
        return cmd_setup()
    if cmd == "baseline-off":
        return cmd_baseline_off()
    if cmd == "check":
        pid = argv[1]
        tier = os.environ.get("VERIF_TIER", "quick")
        if "--tier" in argv:
            tier = argv[argv.index("--tier") + 1]
        seed = int(os.environ.get("VERIF_SEED", "1") or "1")
        if "--seed" in argv:
            seed = int(argv[argv.index("--seed") + 1])
        if pid not in CHECKS:
            print("unknown property " + pid)
            return 2
        try:
            return cmd_check(pid, tier, seed)
        except B.BuildError as e:
            print("BUILD-FAILED\n" + str(e))
            return 2
        except Exception:
            import traceback
            traceback.print_exc()
            print("DRIVER-FAILED (machinery error, not a verdict)")
            return 2
    if cmd == "replay":
        return cmd_replay(argv[1], argv[2])
    print("unknown command " + cmd)
    return 2
