"""libFuzzer campaigns for the codec targets (harness/codec_fuzz.cpp, one binary per target)."""
import glob, hashlib, json, os, re, shutil, subprocess, time
from concurrent.futures import ThreadPoolExecutor
import build as B

TARGET_NAMES = ["v2.track_data", "v2.beat_data", "v2.quick_cues", "v2.loops", "v2.overview_waveform", "v1.track_data", "v1.beat_data",
                "v1.high_res_waveform", "v1.overview_waveform", "v1.quick_cues", "v1.loops", "zlib_uncompress"]


def harness_name(k):
    return "codec_fuzz_%d" % k


def harness_defs():
    return {harness_name(k): dict(sources=["codec_fuzz.cpp"], variant="fuzz", flags=["-DVF_TARGET=%d" % k], libs=["-lz"],
                                  link_flags=["-fsanitize=fuzzer"]) for k in range(12)}


def _env(env, **kw):
    e = dict(env)
    e["ASAN_OPTIONS"] = "detect_leaks=0:allocator_may_return_null=1:max_allocation_size_mb=2048:handle_abort=1:alloc_dealloc_mismatch=0"
    e["UBSAN_OPTIONS"] = "print_stacktrace=1:halt_on_error=1"
    e.update(kw)
    return e


def _one_target(get_harness, pid, k, tier, seed, workdir, env, runs, replaydir, regress_dir):
    exe = get_harness(harness_name(k))
    name = TARGET_NAMES[k]
    cdir = os.path.join(workdir, "corpus_%d" % k)
    adir = os.path.join(workdir, "art_%d" % k) + "/"
    os.makedirs(cdir, exist_ok=True)
    os.makedirs(adir, exist_ok=True)
    res = dict(target=name, evaluations=0, distinct=0, nontrivial=0, violations=[], health=[], samples=[], labels={})
    # seeds from the harness's own generator + refcodec (target 11 borrows the 2.x beat-data seeds)
    if k <= 10:
        subprocess.run([exe], env=_env(env, VF_EMIT_CORPUS=cdir), stdout=subprocess.DEVNULL, stderr=subprocess.DEVNULL, timeout=120)
    else:
        subprocess.run([get_harness(harness_name(1))], env=_env(env, VF_EMIT_CORPUS=cdir), stdout=subprocess.DEVNULL, stderr=subprocess.DEVNULL, timeout=120)
    nseeds = len(os.listdir(cdir))
    if nseeds == 0:
        res["health"].append("fuzz target %s: no seed corpus was produced" % name)
    # saved artifacts from earlier campaigns are replayed first (regression tier)
    for f in sorted(glob.glob(os.path.join(regress_dir, "fuzz_%d" % k, "*"))):
        r = subprocess.run([exe, f], env=_env(env), stdout=subprocess.PIPE, stderr=subprocess.STDOUT, text=True, errors="replace", timeout=120)
        res["evaluations"] += 1
        if r.returncode != 0:
            res["violations"].append((f, "saved fuzz input fails again on %s: %s" % (name, _why(r.stdout))))
    stats = os.path.join(workdir, "fuzzstats_%d.json" % k)
    logp = os.path.join(workdir, "fuzz_%d.log" % k)
    cmd = [exe, "-seed=%d" % (seed if seed != 0 else 1), "-runs=%d" % runs, "-max_len=6000", "-timeout=20", "-rss_limit_mb=3000",
           "-artifact_prefix=" + adir, "-print_final_stats=1", "-len_control=50", cdir]
    t0 = time.time()
    with open(logp, "w") as lf:
        try:
            r = subprocess.run(cmd, env=_env(env, VF_FUZZ_STATS=stats), stdout=lf, stderr=subprocess.STDOUT,
                               timeout=1200 if tier == "quick" else 8 * 3600)
            rc = r.returncode
        except subprocess.TimeoutExpired:
            rc = 124
    log = open(logp, errors="replace").read()
    m = re.search(r"stat::number_of_executed_units:\s*(\d+)", log)
    execs = int(m.group(1)) if m else 0
    if not m:
        mm = re.findall(r"#(\d+)\s", log)
        execs = int(mm[-1]) if mm else 0
    res["evaluations"] += execs
    ncorpus = len(os.listdir(cdir))
    res["distinct"] = max(0, ncorpus - nseeds)
    res["nontrivial"] = res["distinct"]
    st = {}
    if os.path.exists(stats):
        try:
            st = json.load(open(stats))
        except Exception:
            st = {}
    for key in ("returned", "rejected_in_body", "rejected_in_framing", "c04_checked", "c03_checked"):
        res["labels"]["%s:%s" % (name, key)] = st.get(key, 0)
    res["labels"]["%s:execs" % name] = execs
    res["labels"]["%s:corpus_new" % name] = res["distinct"]
    res["wall_s"] = round(time.time() - t0, 1)
    # a few corpus units as samples
    units = sorted(os.listdir(cdir))
    for u in units[:1] + units[len(units) // 2:len(units) // 2 + 1]:
        b = open(os.path.join(cdir, u), "rb").read()
        res["samples"].append("fuzz %s unit %s: %s%s" % (name, u[:12], b[:48].hex(), "..(%dB)" % len(b) if len(b) > 48 else ""))
    if rc == 124:
        res["notes"] = ["fuzz target %s hit the wall-clock limit (inconclusive)" % name]
    # artifacts
    for art in sorted(glob.glob(adir + "*")):
        base = os.path.basename(art)
        kind = base.split("-")[0]
        if kind == "crash":
            dst = os.path.join(replaydir, "%s.fuzz_%d-crash-%s.bin" % (pid, k, hashlib.sha1(open(art, "rb").read()).hexdigest()[:12]))
            shutil.copy(art, dst)
            res["violations"].append((dst, "libFuzzer crash on %s: %s" % (name, _why(log))))
        elif kind == "timeout":
            slow = 0
            for _ in range(3):
                try:
                    subprocess.run([exe, art], env=_env(env), stdout=subprocess.DEVNULL, stderr=subprocess.DEVNULL, timeout=10)
                except subprocess.TimeoutExpired:
                    slow += 1
            if slow == 3:
                dst = os.path.join(replaydir, "%s.fuzz_%d-hang-%s.bin" % (pid, k, hashlib.sha1(open(art, "rb").read()).hexdigest()[:12]))
                shutil.copy(art, dst)
                res["violations"].append((dst, "decoder %s does not terminate within 10 s (3/3 replays)" % name))
        # slow-unit / oom / leak: information only
    if rc not in (0, 124) and not res["violations"]:
        res["health"].append("fuzz target %s exited with %d without an artifact: %s" % (name, rc, log[-300:].replace("\n", " ")))
    if execs == 0 and rc == 0:
        res["health"].append("fuzz target %s executed nothing" % name)
    return res


def _why(log):
    for pat in (r"VF-VIOLATION: (.*)", r"SUMMARY: \w+Sanitizer: (.*)", r"(runtime error: .*)", r"(Assertion .* failed)", r"(ERROR: libFuzzer: .*)"):
        m = re.search(pat, log)
        if m:
            return m.group(1)[:400]
    return "unknown"


def make_runner(get_harness, targets, quick_runs, thorough_runs):
    def run(pid, part, exe, tier, seed, workdir, avoid, env):
        runs = quick_runs if tier == "quick" else thorough_runs
        runs = max(1000, int(runs * float(os.environ.get("VERIF_SCALE", "1") or "1")))   # sanity runs of a tier (never registered)
        replaydir = os.path.join(B.BUILD, "replay")
        regress_dir = os.path.join(B.ROOT, "regress", "C05")
        with B.BuildLock():
            for k in targets:
                get_harness(harness_name(k))
            if 11 in targets:
                get_harness(harness_name(1))
        out = dict(evaluations=0, nontrivial=0, distinct=0, samples=[], labels={}, violations=[], health=[], wall_s=0)
        t0 = time.time()
        with ThreadPoolExecutor(min(16, len(targets))) as ex:
            futs = [ex.submit(_one_target, get_harness, pid, k, tier, seed, workdir, env, runs, replaydir, regress_dir) for k in targets]
            for f in futs:
                r = f.result()
                out["evaluations"] += r["evaluations"]
                out["nontrivial"] += r["nontrivial"]
                out["distinct"] += r["distinct"]
                out["samples"] += r["samples"][:1]
                out["labels"].update(r["labels"])
                out["violations"] += r["violations"]
                out["health"] += r["health"]
        out["wall_s"] = round(time.time() - t0, 1)
        # essential: every blob target returned at least once and rejected in the body at least once
        for k in targets:
            n = TARGET_NAMES[k]
            if out["labels"].get(n + ":returned", 0) == 0:
                out["health"].append("fuzz target %s never saw an accepted input" % n)
            if out["labels"].get(n + ":rejected_in_body", 0) == 0 and k != 11:
                out["health"].append("fuzz target %s never rejected an input in the body parser" % n)
        return out

    def replay(pid, part, exe, path, env):
        m = re.search(r"fuzz_(\d+)", os.path.basename(path)) or re.search(r"fuzz_(\d+)", path)
        if not m:
            print("cannot tell the fuzz target from the file name: " + path)
            return 2
        k = int(m.group(1))
        with B.BuildLock():
            fexe = get_harness(harness_name(k))
        try:
            r = subprocess.run([fexe, path], env=_env(env), stdout=subprocess.PIPE, stderr=subprocess.STDOUT, text=True, errors="replace", timeout=60)
            print(r.stdout[-4000:])
            rc = r.returncode
        except subprocess.TimeoutExpired:
            print("VF-HANG: replay did not finish in 60 s")
            rc = 3
        if rc != 0:
            print("VIOLATION property=%s replay=%s" % (pid, path))
            return 1
        return 0

    return run, replay
