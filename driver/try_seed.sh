#!/bin/bash
# usage: driver/try_seed.sh <seed-dir-name> <PROPERTY>[,<PROPERTY>...]   e.g. driver/try_seed.sh C15 C15,C07
# Applies seeded/<name>/patch.diff to a scratch worktree of /repo's HEAD (so /repo itself is never touched and other runs are not
# disturbed), points the checks at it through VERIF_REPO, runs the quick tier of the given checks with evidence redirected to a
# scratch directory (committed evidence always comes from the unchanged tree), and removes the worktree.
set -u
cd "$(dirname "$0")/.."
name=$1; props=${2:-$1}
wt=/dev/shm/verif-seed-wt-$$
git -C /repo worktree add -q --detach $wt HEAD || exit 2
trap 'git -C /repo worktree remove --force '$wt' 2>/dev/null' EXIT
git -C $wt apply "$PWD/seeded/$name/patch.diff" || { echo "patch does not apply"; exit 2; }
export VERIF_REPO=$wt
export VERIF_EVIDENCE_DIR=/dev/shm/verif-seed-evidence; mkdir -p $VERIF_EVIDENCE_DIR
for p in ${props//,/ }; do
  echo "--- seed $name vs check $p"
  timeout 3000 ./vcheck check $p --tier quick 2>&1 | grep -v "^\[vcheck\]" | grep "SUMMARY\|detail\|VIOLATION\|DEFECT" | head -4 | cut -c1-500
done
