#!/bin/bash
# usage: driver/try_seed.sh <seed-dir-name> <PROPERTY>[,<PROPERTY>...]   e.g. driver/try_seed.sh C15 C15,C07
# Applies seeded/<name>/patch.diff to /repo, runs the quick tier of the given checks with evidence redirected to a scratch
# directory (so committed evidence always comes from the unchanged tree), and restores /repo.
set -u
cd "$(dirname "$0")/.."
name=$1; props=${2:-$1}
git -C /repo diff --quiet || { echo "/repo has uncommitted changes"; exit 2; }
git -C /repo apply "$PWD/seeded/$name/patch.diff" || { echo "patch does not apply"; exit 2; }
export VERIF_EVIDENCE_DIR=/dev/shm/verif-seed-evidence; mkdir -p $VERIF_EVIDENCE_DIR
for p in ${props//,/ }; do
  echo "--- seed $name vs check $p"
  timeout 3000 ./vcheck check $p --tier quick 2>&1 | grep -v "^\[vcheck\]" | grep "SUMMARY\|detail\|VIOLATION\|DEFECT" | head -4 | cut -c1-500
done
git -C /repo checkout -- .
