"""Builds libdjinterop (from /repo's *working tree*) and the harness binaries, with a content-hash cache."""
import fcntl, glob, hashlib, os, re, shutil, subprocess, sys, tempfile, time

KEEP_S = 4 * 3600   # binaries / archives younger than this are never pruned: a concurrent long campaign may be using them
from concurrent.futures import ThreadPoolExecutor

ROOT = os.path.dirname(os.path.dirname(os.path.abspath(__file__)))
REPO = os.environ.get("VERIF_REPO", "/repo")
BUILD = os.path.join(ROOT, "build")
JOBS = int(os.environ.get("VERIF_JOBS", "16"))

GUARD = "XSCO_LIBDJINTEROP_VERIF"

SAN_COMMON = ["-fsanitize=address,undefined", "-fno-sanitize-recover=undefined", "-fno-omit-frame-pointer"]
VARIANTS = {
    # full library, g++ (clang 14 cannot compile v1/engine_storage.cpp), sanitizers + libstdc++ assertions, asserts on
    "san": dict(cxx="g++", flags=["-std=gnu++17", "-g1", "-O1", "-D_GLIBCXX_ASSERTIONS", "-fsanitize=float-cast-overflow",
                                  "-Dsqlite3_step=verif_sqlite3_step", "-D" + GUARD] + SAN_COMMON, codec_only=False),
    # codec translation units only, clang + libFuzzer instrumentation
    "fuzz": dict(cxx="clang++", flags=["-std=gnu++17", "-g", "-O1", "-D_GLIBCXX_ASSERTIONS", "-fsanitize=fuzzer-no-link",
                                       "-D" + GUARD] + SAN_COMMON, codec_only=True),
    # optimised, no sanitizers: bounded-exhaustive enumerations where throughput matters
    "fast": dict(cxx="g++", flags=["-std=gnu++17", "-g1", "-O2", "-Dsqlite3_step=verif_sqlite3_step", "-D" + GUARD],
                 codec_only=False),
}
CODEC_TUS = ["src/djinterop/engine/encode_decode_utils.cpp", "src/djinterop/engine/v1/performance_data_format.cpp",
             "src/djinterop/engine/v2/beat_data_blob.cpp", "src/djinterop/engine/v2/quick_cues_blob.cpp",
             "src/djinterop/engine/v2/loops_blob.cpp", "src/djinterop/engine/v2/overview_waveform_data_blob.cpp",
             "src/djinterop/engine/v2/track_data_blob.cpp"]


class BuildError(Exception):
    pass


def log(*a):
    print("[vcheck]", *a, file=sys.stderr, flush=True)


def sha(*parts):
    h = hashlib.sha256()
    for p in parts:
        h.update(p if isinstance(p, bytes) else str(p).encode())
        h.update(b"\0")
    return h.hexdigest()


def file_sha(path):
    with open(path, "rb") as f:
        return hashlib.sha256(f.read()).hexdigest()


def lib_sources():
    txt = open(os.path.join(REPO, "CMakeLists.txt")).read()
    m = re.search(r"add_library\(\s*DjInterop(.*?)\)", txt, re.S)
    if not m:
        raise BuildError("cannot find add_library(DjInterop ...) in CMakeLists.txt")
    srcs = re.findall(r"(src/[\w/\.\-]+\.cpp)", m.group(1))
    if len(srcs) < 20:
        raise BuildError("suspiciously few library sources parsed from CMakeLists.txt")
    return srcs


_hdr_fp = {}


def header_fingerprint(extra_dirs=()):
    key = tuple(extra_dirs)
    if key in _hdr_fp:
        return _hdr_fp[key]
    files = []
    for base, pats in ((REPO, ["include/**/*", "src/**/*.hpp", "src/**/*.h", "ext/sqlite_modern_cpp/**/*", "ext/date/*"]),):
        for pat in pats:
            files += [f for f in glob.glob(os.path.join(base, pat), recursive=True) if os.path.isfile(f)]
    for d in extra_dirs:
        files += [f for f in glob.glob(os.path.join(d, "**/*"), recursive=True)
                  if os.path.isfile(f) and f.endswith((".hpp", ".h"))]
    files.sort()
    h = hashlib.sha256()
    for f in files:
        # relative names: the same tree under another root (a scratch worktree) hashes the same
        rel = os.path.relpath(f, REPO) if f.startswith(REPO + os.sep) else os.path.relpath(f, ROOT)
        h.update(rel.encode())
        h.update(file_sha(f).encode())
    _hdr_fp[key] = h.hexdigest()
    return _hdr_fp[key]


def gen_config(variant):
    inc = os.path.join(BUILD, variant, "include", "djinterop")
    os.makedirs(inc, exist_ok=True)
    src = open(os.path.join(REPO, "include/djinterop/config.hpp.in")).read()
    out = src.replace("#cmakedefine DJINTEROP_STATIC", "#define DJINTEROP_STATIC")
    p = os.path.join(inc, "config.hpp")
    if not os.path.exists(p) or open(p).read() != out:
        tmp = p + ".tmp%d" % os.getpid()
        open(tmp, "w").write(out)
        os.replace(tmp, p)
    return os.path.join(BUILD, variant, "include")


def include_flags(variant):
    cfg = gen_config(variant)
    return ["-I" + cfg, "-I" + os.path.join(REPO, "include"), "-I" + os.path.join(REPO, "src"),
            "-I" + os.path.join(REPO, "ext/sqlite_modern_cpp"), "-I" + os.path.join(REPO, "ext/date"),
            "-DDJINTEROP_SOURCE"]


def compile_one(cxx, flags, src, obj):
    os.makedirs(os.path.dirname(obj), exist_ok=True)
    import threading
    tmp = obj + ".tmp%d-%d" % (os.getpid(), threading.get_ident())   # several harnesses of one setup compile the shared shim concurrently
    cmd = [cxx] + flags + ["-c", src, "-o", tmp]
    r = subprocess.run(cmd, stdout=subprocess.PIPE, stderr=subprocess.STDOUT, text=True)
    if r.returncode != 0:
        try:
            os.unlink(tmp)
        except OSError:
            pass
        raise BuildError("compile failed: %s\n%s" % (" ".join(cmd), r.stdout[-6000:]))
    os.replace(tmp, obj)
    return obj


def build_lib(variant):
    """Returns the path of the static archive for `variant`, rebuilt from /repo's working tree if stale."""
    v = VARIANTS[variant]
    srcs = CODEC_TUS if v["codec_only"] else lib_sources()
    flags = v["flags"] + include_flags(variant)
    hfp = header_fingerprint()
    objdir = os.path.join(BUILD, variant, "obj")
    todo, objs = [], []
    for s in srcs:
        path = os.path.join(REPO, s)
        key = sha(file_sha(path), hfp, v["cxx"], " ".join(flags).replace(REPO, "<repo>"))[:32]
        obj = os.path.join(objdir, s.replace("/", "_") + "." + key + ".o")
        objs.append(obj)
        if not os.path.exists(obj):
            todo.append((path, obj))
    if todo:
        log("building %d/%d library objects (%s)" % (len(todo), len(srcs), variant))
        with ThreadPoolExecutor(JOBS) as ex:
            futs = [ex.submit(compile_one, v["cxx"], flags, s, o) for s, o in todo]
            errs = []
            for f in futs:
                try:
                    f.result()
                except BuildError as e:
                    errs.append(str(e))
            if errs:
                raise BuildError("\n".join(errs[:3]))
        # drop stale objects (older than a day, or beyond 600 files) - several trees (e.g. /repo and a scratch worktree with a
        # seeded change) may share the cache
        import time as _t
        keep = set(objs)
        others = sorted((f for f in glob.glob(os.path.join(objdir, "*.o")) if f not in keep), key=os.path.getmtime)
        for i, f in enumerate(others):
            if len(others) - i > 600 or _t.time() - os.path.getmtime(f) > 86400:
                try:
                    os.unlink(f)
                except OSError:
                    pass
    akey = sha(*sorted(objs))[:16]
    ar = os.path.join(BUILD, variant, "libdj.%s.a" % akey)
    if not os.path.exists(ar):
        # keep the few most recent archives: another check (e.g. one running against a scratch worktree) may be using them
        old_ars = sorted(glob.glob(os.path.join(BUILD, variant, "libdj.*.a")), key=os.path.getmtime)
        for f in old_ars[:-3]:
            try:
                if time.time() - os.path.getmtime(f) > KEEP_S:   # a long campaign may still link against / run it
                    os.unlink(f)
            except OSError:
                pass
        tmp = ar + ".tmp%d" % os.getpid()
        r = subprocess.run(["ar", "rcs", tmp] + objs, stdout=subprocess.PIPE, stderr=subprocess.STDOUT, text=True)
        if r.returncode != 0:
            raise BuildError("ar failed: " + r.stdout)
        os.replace(tmp, ar)
    return ar


def build_harness(name, sources, variant, extra_flags=(), libs=("-lrapidcheck", "-lsqlite3", "-lz"), with_shim=False,
                  link_flags=()):
    """Compiles harness sources (relative to /verif/harness) and links them against the variant's archive."""
    v = VARIANTS[variant]
    ar = build_lib(variant)
    hdir = os.path.join(ROOT, "harness")
    # harness code itself is compiled without the sqlite3_step macro
    base_flags = [f for f in v["flags"] if not f.startswith("-Dsqlite3_step")]
    flags = base_flags + include_flags(variant) + ["-I" + hdir] + list(extra_flags)
    hfp = header_fingerprint((hdir,))
    needs_shim = any(f.startswith("-Dsqlite3_step") for f in v["flags"])
    srcs = list(sources) + (["common/sqlite_shim.cpp"] if (with_shim or needs_shim) else [])
    objs, todo = [], []
    for s in srcs:
        path = os.path.join(hdir, s)
        key = sha(file_sha(path), hfp, v["cxx"], " ".join(flags).replace(REPO, "<repo>"))[:32]
        obj = os.path.join(BUILD, variant, "hobj", s.replace("/", "_") + "." + key + ".o")
        objs.append(obj)
        if not os.path.exists(obj):
            todo.append((path, obj))
    if todo:
        log("compiling harness %s (%d TU, %s)" % (name, len(todo), variant))
        with ThreadPoolExecutor(JOBS) as ex:
            for f in [ex.submit(compile_one, v["cxx"], flags, s, o) for s, o in todo]:
                f.result()
    bkey = sha(ar, " ".join(link_flags), *objs)[:16]
    exe = os.path.join(BUILD, variant, "bin", "%s.%s" % (name, bkey))
    if not os.path.exists(exe):
        os.makedirs(os.path.dirname(exe), exist_ok=True)
        # keep the few most recent binaries of this harness (concurrent checks against other trees may be running them)
        old_bins = sorted((f for f in glob.glob(os.path.join(BUILD, variant, "bin", name + ".*")) if ".tmp" not in f), key=os.path.getmtime)
        for f in old_bins[:-3]:
            try:
                if time.time() - os.path.getmtime(f) > KEEP_S:
                    os.unlink(f)
            except OSError:
                pass
        tmp = exe + ".tmp%d" % os.getpid()
        san = [f for f in v["flags"] if f.startswith("-fsanitize") and "fuzzer-no-link" not in f]
        cmd = [v["cxx"]] + san + list(link_flags) + ["-o", tmp] + objs + [ar] + list(libs)
        r = subprocess.run(cmd, stdout=subprocess.PIPE, stderr=subprocess.STDOUT, text=True)
        if r.returncode != 0:
            raise BuildError("link failed: %s\n%s" % (" ".join(cmd), r.stdout[-6000:]))
        os.replace(tmp, exe)
    try:
        os.utime(exe, None)   # mark as in use (pruning is by age)
    except OSError:
        pass
    return exe


class BuildLock:
    def __enter__(self):
        os.makedirs(BUILD, exist_ok=True)
        self.f = open(os.path.join(BUILD, ".lock"), "w")
        fcntl.flock(self.f, fcntl.LOCK_EX)
        return self

    def __exit__(self, *a):
        fcntl.flock(self.f, fcntl.LOCK_UN)
        self.f.close()
