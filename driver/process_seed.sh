#!/bin/bash
# usage: driver/process_seed.sh <worktree> <seed-name> <CHECKS>   confirm a seeded defect, store it under seeded/<seed-name>/, run checks against it
set -u
cd "$(dirname "$0")/.."
wt=$1; name=$2; props=$3
driver/confirm_seed.sh $wt $name
res=$(tail -1 $wt/seed_out/confirm.log)
echo "=== $name: $res"
[ "$res" = "RESULT confirmed" ] || exit 1
mkdir -p seeded/$name
cp $wt/seed_out/{patch.diff,demo.cpp,run_demo.sh,notes.md,confirm.log} seeded/$name/ 2>/dev/null
driver/try_seed.sh $name $props
