#!/bin/bash
# usage: driver/eval_seed_full.sh <seed> <prop>  -- like try_seed.sh but keeps the full log
cd /verif
name=$1; p=$2
wt=/dev/shm/verif-seed-wt-$$
git -C /repo worktree add -q --detach $wt HEAD || exit 2
trap 'git -C /repo worktree remove --force '$wt' 2>/dev/null' EXIT
git -C $wt apply "/verif/seeded/$name/patch.diff" || { echo "patch does not apply"; exit 2; }
export VERIF_REPO=$wt
export VERIF_EVIDENCE_DIR=/dev/shm/verif-seed-evidence-$$; mkdir -p $VERIF_EVIDENCE_DIR
timeout 3000 ./vcheck check $p --tier quick > /tmp/full_${name}_$p.log 2>&1
echo "exit=$?" >> /tmp/full_${name}_$p.log
rm -rf $VERIF_EVIDENCE_DIR
