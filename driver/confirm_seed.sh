#!/bin/bash
# usage: confirm_seed.sh <worktree-with-change-applied> <ID>   (scratch confirmation of a seeded defect; not a registered check)
# 1. changed tree: build, run the repository's test suite (must pass), run the demo (must FAIL)
# 2. revert the change, rebuild, run the demo (must PASS)
set -u
WT=$1; ID=$2; OUT=$WT/seed_out; LOG=$OUT/confirm.log
exec > $LOG 2>&1
cd $WT
echo "== confirm $ID at $(git rev-parse --short HEAD)"
git diff --stat -- src include
cmake -G Ninja -S $WT -B $WT/_build -DCMAKE_BUILD_TYPE=RelWithDebInfo > /dev/null && cmake --build $WT/_build -j8 > $OUT/build1.log 2>&1 || { echo "RESULT build-failed"; tail -5 $OUT/build1.log; exit 1; }
ctest --test-dir $WT/_build -j8 --timeout 900 > $OUT/ctest1.log 2>&1; T1=$?
grep "tests passed\|tests failed" $OUT/ctest1.log
( cd $OUT && timeout 600 bash ./run_demo.sh $WT $WT/_build ) > $OUT/demo_changed.log 2>&1; D1=$?
echo "changed: ctest=$T1 demo=$D1"; tail -3 $OUT/demo_changed.log
git apply -R $OUT/patch.diff || { echo "RESULT cannot-revert"; exit 1; }
cmake --build $WT/_build -j8 > $OUT/build2.log 2>&1 || { echo "RESULT build2-failed"; exit 1; }
( cd $OUT && timeout 600 bash ./run_demo.sh $WT $WT/_build ) > $OUT/demo_clean.log 2>&1; D2=$?
echo "clean: demo=$D2"; tail -3 $OUT/demo_clean.log
git apply $OUT/patch.diff
rm -rf $WT/_build
if [ $T1 -eq 0 ] && [ $D1 -ne 0 ] && [ $D2 -eq 0 ]; then echo "RESULT confirmed"; else echo "RESULT NOT-confirmed"; fi
