"""Which harness binary decides which property, with the budgets of each tier."""

HARNESSES = {
    "numeric_pbt": dict(sources=["numeric_pbt.cpp"], variant="san"),
    "codec_pbt": dict(sources=["codec_pbt.cpp"], variant="san"),
    "api_pbt": dict(sources=["api_pbt.cpp"], variant="san"),
}

_CODEC_ESS_KINDS = ["kind=v2.track_data", "kind=v2.beat_data", "kind=v2.quick_cues", "kind=v2.loops", "kind=v2.overview_waveform",
                    "kind=v1.track_data", "kind=v1.beat_data", "kind=v1.high_res_waveform", "kind=v1.overview_waveform",
                    "kind=v1.quick_cues", "kind=v1.loops"]

CHECKS = {
    "C02": dict(level="exploration", parts=[
        dict(prop="C02.enc", harness="codec_pbt", quick=dict(count=24000, workers=8), thorough=dict(count=2400000, workers=16),
             essential=_CODEC_ESS_KINDS + ["label=255", "payload>16KiB"]),
        dict(prop="C02.dec", harness="codec_pbt", quick=dict(count=24000, workers=8), thorough=dict(count=2400000, workers=16),
             essential=_CODEC_ESS_KINDS + ["label=255", "zlib-stored", "foreign:flag", "foreign:zero-tail"]),
    ]),
    "C03": dict(level="exploration", parts=[
        dict(prop="C03", harness="codec_pbt", quick=dict(count=40000, workers=8), thorough=dict(count=3300000, workers=16),
             essential=_CODEC_ESS_KINDS + ["label=255", "label=256", "label=300", "entries=8", "entries=9", "entries=12", "double:nan",
                                           "grid:1-marker", "grid:unsorted", "grid:>32768", "extra-data", "encode-rejected"]),
        dict(prop="C03.reg", harness="codec_pbt", quick=dict(count=0, workers=1), thorough=dict(count=0, workers=1)),  # regression scenarios only
    ]),
    "C04": dict(level="exploration", parts=[
        dict(prop="C04", harness="codec_pbt", quick=dict(count=20000, workers=8), thorough=dict(count=1500000, workers=16),
             essential=["kind=v2.track_data", "kind=v2.beat_data", "kind=v2.quick_cues", "kind=v2.loops", "kind=v2.overview_waveform",
                        "count!=8", "flag>1", "v2.track_data:tail", "v2.overview_waveform:tail", "v2.beat_data:tail", "v2.loops:tail",
                        "v2.quick_cues:tail"]),
        dict(prop="C04.fuzz", kind="fuzz", targets=[0, 1, 2, 3, 4], quick_runs=150000, thorough_runs=6000000),
    ]),
    "C05": dict(level="exploration", parts=[
        dict(prop="C05", harness="codec_pbt", quick=dict(count=60000, workers=8), thorough=dict(count=6000000, workers=16),
             essential=_CODEC_ESS_KINDS + ["mut:count", "frame:prefix", "frame:truncated-stream", "frame:short-raw", "frame:corrupt-stream",
                                           "zlib:returned", "zlib:rejected"]),
        dict(prop="C05.fuzz", kind="fuzz", targets=list(range(12)), quick_runs=200000, thorough_runs=8000000),
    ]),
    "C19": dict(level="exploration", parts=[
        dict(prop="C19", harness="numeric_pbt",
             quick=dict(count=400000, workers=8), thorough=dict(count=48000000, workers=16),
             essential=["n_mod_q=0", "n_mod_q=1", "n_mod_q=q-1", "n>2^53", "q=0", "n=0"])]),
    "C20": dict(level="exploration", parts=[
        dict(prop="C20", harness="numeric_pbt",
             quick=dict(count=200000, workers=8), thorough=dict(count=16000000, workers=16),
             essential=["marker-exactly-at-end", "grid-entirely-inside", "last-marker-far-beyond", "trimmed",
                        "interior-markers", "unnormalisable", "empty-grid"])]),
}

RULES = {
    "C02": "Two generated campaigns over all 11 blob kinds. enc: a logical value (finite doubles, labels 0..255 bytes of arbitrary content, "
           "0..20 cue/loop entries, grids/waveforms of 0..60 entries plus 1024 and large sizes) is encoded by the library and decoded by "
           "refcodec (independent table-driven layout reader, one-shot zlib, verifies the length prefix and that the stream ends at the end "
           "of the blob); the tokens must equal the harness's own value->layout mapping. dec: the same values are encoded by refcodec "
           "(zlib level -1..9, 1.x blobs additionally with foreign flag bytes, unknown fields, zero tails, arbitrary max entries) and "
           "decoded by the library; the result must equal the value bit for bit. Non-trivial = value has >=1 repeated entry or the blob "
           "exceeds 40 bytes; distinct = distinct canonical renderings of (value, level, blob prefix).",
    "C03": "Each case = one of the 11 blob kinds and a value drawn from the whole struct domain: doubles by bit-pattern class (0, -0, -1 "
           "sentinel, denormal, NaN payloads, +-inf, arbitrary bits), integer edges, labels of 0/1/short/254/255/256/300 arbitrary bytes, "
           "0..12 cue/loop entries, 1.x grids empty/2/many/1-marker/unsorted/>32768/extreme indices, waveforms 0..60/1024/large, extra_data "
           "0..64 bytes. Oracle: encode throws std::exception, or decode(encode(v)) is bit-identical to v (own renderer, NaN by bits) up to "
           "the one permitted loss (1.x cue/loop with offset -1 reads back absent). 1.x zero-means-none fields (sample rate/count, loudness, "
           "key 0 in the trackData blob) are generated absent instead of present-zero. Non-trivial = value has >=1 entry or non-empty "
           "extra_data and was accepted by the encoder; distinct = distinct canonical renderings.",
    "C04": "pbt part: a generated 2.x value (0..20 entries, arbitrary flag bytes 0..255 for is_start_set/is_end_set/is_beatgrid_set and the "
           "main-cue boolean, 0..64 trailing bytes) is encoded by refcodec at zlib level -1..9 and given to from_blob; if accepted, the "
           "inflated payload of to_blob(from_blob(b)) must equal the original payload byte for byte (main-cue boolean normalised to 1, located "
           "through the layout table). fuzz part: libFuzzer on the five 2.x decoders with the same oracle inside the target (raw bytes or "
           "bytes framed by the target). Non-trivial = blob has a tail, a count != 8, a flag > 1, or is beat data; distinct = distinct payloads "
           "(pbt) + coverage-increasing corpus units beyond the seeds (fuzz).",
    "C05": "pbt part: a valid payload of one of the 11 kinds (from the value generators + refcodec) gets 1-2 structured mutations "
           "(truncation anywhere / near the end, a count field overwritten with 0, -1, INT64_MIN, fit+-1, 2^31, 2^59, 2^61, 2^63-1..., byte "
           "set/flip, appended bytes, tiny arbitrary payloads, minimum-size payloads with non-zero counts), then a framing (well-formed at any "
           "zlib level, wrong length prefix, deflate stream cut anywhere / near the end / inside a stored block, bytes after the stream, raw "
           "0..8 bytes, bit flip inside the stream); the decoder and zlib_uncompress must return or throw std::exception under ASan+UBSan+"
           "_GLIBCXX_ASSERTIONS and a 30 s watchdog; when the frame is well-formed zlib_uncompress must agree with one-shot inflate. fuzz part: "
           "libFuzzer (ASan+UBSan, -timeout=20) on 11 decoders + zlib_uncompress, seeds = generator-made valid blobs. Every input is "
           "non-trivial in the sense that it reaches a decoder; distinct = distinct byte strings (pbt) + coverage-increasing corpus units (fuzz).",
    "C19": "Each case = (sample_count, sample_rate) decoded from rapidcheck-generated choices: boundary tables (0, 1, 209..211, "
           "419..421, 2^31, 2^53+-1, 2^62, k*q+{-1,0,1,q-1}) mixed with uniform draws over [0,2^62] x [0,2^31]; the compiled "
           "functions are compared with an exact unsigned-128-bit integer reference and with the metamorphic relations n->n+1, "
           "n->n+q, n->n+random. Non-trivial = q>0 and n>0; distinct = distinct (count, rate-bit-pattern) pairs.",
    "C20": "Each case = (grid, sample_count): 0..65 strictly increasing markers with generated start index in [-10^6,10^6], "
           "constant or varying tempo, placed by shape (inside, spanning both ends, marker exactly at the end / at 0, last marker "
           "far beyond, all before 0, all after the end, empty, single). Oracle = independent trimming + validity predicate "
           "(index -4, last marker in [end, end+1 beat), first/last tempo kept, interior bit-identical, idempotent). Non-trivial = "
           ">=1 marker trimmed or >=1 interior marker; distinct = distinct (n, grid) values.",
}

ASSUMPTIONS = {
    "C02": ["'The Engine format' is the layout documented at the pinned commit and frozen in harness/refcodec (DESIGN appendix B); no "
            "Engine-written blob exists offline", "zlib's one-shot uncompress2/compress2 are correct"],
    "C03": ["1.x fields whose zero value means 'none' in the format (sample rate/count, loudness, trackData key) are outside the value domain",
            "the 1.x overview waveform has no opacity bytes: opacity is not part of that codec's domain"],
    "C04": ["payload = what zlib one-shot inflate yields for the single well-formed frame (identity for loops)"],
    "C05": ["allocations above 256 MiB (pbt) / 64 MiB (fuzz targets, inputs <= 6000 bytes) are turned into std::bad_alloc by the harness's operator new (ASan's cannot throw)",
            "hangs are judged by a 30 s (pbt) / 20 s (libFuzzer) watchdog, confirmed by 3 replays"],
    "C19": ["IEEE-754 binary64 arithmetic with round-to-nearest in the harness", "sample rates are finite and within [0, 2^31] as the property states"],
    "C20": ["grids are strictly increasing in offset and index (property domain)",
            "tempo is restricted so that every normalised index fits in a 32-bit int with margin (|index| < 2^30); "
            "indices beyond that cannot be represented by beatgrid_marker and are outside the generated domain"],
}

# ---------------------------------------------------------------------------------------------------------
# Text for MANIFEST.json (driver/gen_manifest.py regenerates the file from this module).
ENGINES = [
    dict(name="codec_pbt", path="harness/codec_pbt.cpp", serves_properties=["C02", "C03", "C04", "C05"],
         kind_free_text="rapidcheck-driven value/byte generators vs refcodec (independent layout implementation), round-trip and byte-preservation oracles, ASan+UBSan"),
    dict(name="codec_fuzz", path="harness/codec_fuzz.cpp", serves_properties=["C04", "C05"],
         kind_free_text="12 libFuzzer targets (clang, ASan+UBSan) with the C03/C04/C05 oracles inside the target"),
    dict(name="numeric_pbt", path="harness/numeric_pbt.cpp", serves_properties=["C19", "C20"],
         kind_free_text="rapidcheck-driven generated inputs vs exact-integer reference and validity predicates"),
]

MANIFEST_TEXT = {
    "C02": dict(engine="codec_pbt", design_ref="DESIGN.md 6/C02, appendix B",
                technique="property-based differential testing: library codecs vs an independent table-driven codec (refcodec), both directions",
                text="Generated values of all 11 blob kinds are encoded by the library and decoded by an independent implementation of the "
                     "documented layout (and vice versa, at every zlib level, with foreign flags/tails); any drift of field order, width, "
                     "endianness or framing on either side shows as a token mismatch.",
                note="Trusts refcodec's layout tables (frozen from the documented format), zlib one-shot API."),
    "C03": dict(engine="codec_pbt", design_ref="DESIGN.md 6/C03",
                technique="property-based round-trip testing over the whole struct domain (bit-exact comparison, reject-or-survive)",
                text="Generated values over the whole struct domain (every double class, over-long labels, 0..12 slots, malformed grids, "
                     "extra data): encode either throws or decodes back bit-identically; heap errors are visible through ASan.",
                note="Trusts the harness's canonical renderer; 1.x zero-means-none fields excluded from the domain as documented."),
    "C04": dict(engine="codec_pbt + codec_fuzz", design_ref="DESIGN.md 6/C04",
                technique="property-based metamorphic testing (decode/re-encode byte preservation) + coverage-guided fuzzing with the oracle in the target",
                text="Foreign 2.x blobs built by refcodec (arbitrary counts, flags, tails, zlib levels) and libFuzzer mutations of them: "
                     "whenever from_blob accepts, to_blob must reproduce the payload byte for byte.",
                note="Setter-level byte preservation on stored tracks is covered by the api-level part once that harness lands."),
    "C05": dict(engine="codec_pbt + codec_fuzz", design_ref="DESIGN.md 6/C05",
                technique="coverage-guided fuzzing (libFuzzer, ASan+UBSan) + structured near-miss generation with sanitizers and a watchdog",
                text="Arbitrary and structured-corrupt byte strings into all 11 decoders and zlib_uncompress: return or std::exception, no "
                     "sanitizer report, no assertion, no hang.",
                note="A bound on run time (watchdog), not a termination proof; allocations >256 MiB (64 MiB in fuzz targets) become bad_alloc."),
    "C19": dict(engine="numeric_pbt", design_ref="DESIGN.md 6/C19",
                technique="property-based testing: generated (count, rate) pairs vs exact 128-bit integer reference + metamorphic monotonicity",
                text="Generated-input search (boundary tables + uniform draws over the stated domain) comparing the compiled functions "
                     "with an exact integer reference; not a proof over the integers.",
                note="Trusts IEEE-754 arithmetic of the harness and the reference written from the property statement."),
    "C20": dict(engine="numeric_pbt", design_ref="DESIGN.md 6/C20",
                technique="property-based testing: generated beat grids vs independent trimming + validity predicate + idempotence",
                text="Generated grids of every placement shape against an independently written trimming and a validity predicate "
                     "(index -4, end bracket, tempo kept, interior bit-identical, idempotent).",
                note="Grids strictly increasing, indices within 32-bit range; floating-point tolerance 1e-9 relative as stated in DESIGN."),
}

_WIP = "check under construction in this session (harness not yet committed); will be claimed once it runs green and has been sensitivity-tested"
NOT_APPLICABLE = {p: _WIP for p in ["C%02d" % i for i in range(1, 19)] if p not in CHECKS}
