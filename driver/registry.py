"""Which harness binary decides which property, with the budgets of each tier."""

HARNESSES = {
    "numeric_pbt": dict(sources=["numeric_pbt.cpp"], variant="san"),
}

CHECKS = {
    "C19": dict(level="exploration", parts=[
        dict(prop="C19", harness="numeric_pbt",
             quick=dict(count=400000, workers=8), thorough=dict(count=48000000, workers=16),
             essential=["n_mod_q=0", "n_mod_q=1", "n_mod_q=q-1", "n>2^53", "q=0", "n=0"])]),
    "C20": dict(level="exploration", parts=[
        dict(prop="C20", harness="numeric_pbt",
             quick=dict(count=200000, workers=8), thorough=dict(count=16000000, workers=16),
             essential=["marker-exactly-at-end", "grid-entirely-inside", "last-marker-far-beyond", "trimmed",
                        "interior-markers", "unnormalisable", "empty-grid"])]),
}

RULES = {
    "C19": "Each case = (sample_count, sample_rate) decoded from rapidcheck-generated choices: boundary tables (0, 1, 209..211, "
           "419..421, 2^31, 2^53+-1, 2^62, k*q+{-1,0,1,q-1}) mixed with uniform draws over [0,2^62] x [0,2^31]; the compiled "
           "functions are compared with an exact unsigned-128-bit integer reference and with the metamorphic relations n->n+1, "
           "n->n+q, n->n+random. Non-trivial = q>0 and n>0; distinct = distinct (count, rate-bit-pattern) pairs.",
    "C20": "Each case = (grid, sample_count): 0..65 strictly increasing markers with generated start index in [-10^6,10^6], "
           "constant or varying tempo, placed by shape (inside, spanning both ends, marker exactly at the end / at 0, last marker "
           "far beyond, all before 0, all after the end, empty, single). Oracle = independent trimming + validity predicate "
           "(index -4, last marker in [end, end+1 beat), first/last tempo kept, interior bit-identical, idempotent). Non-trivial = "
           ">=1 marker trimmed or >=1 interior marker; distinct = distinct (n, grid) values.",
}

ASSUMPTIONS = {
    "C19": ["IEEE-754 binary64 arithmetic with round-to-nearest in the harness", "sample rates are finite and within [0, 2^31] as the property states"],
    "C20": ["grids are strictly increasing in offset and index (property domain)",
            "tempo is restricted so that every normalised index fits in a 32-bit int with margin (|index| < 2^30); "
            "indices beyond that cannot be represented by beatgrid_marker and are outside the generated domain"],
}

# ---------------------------------------------------------------------------------------------------------
# Text for MANIFEST.json (driver/gen_manifest.py regenerates the file from this module).
ENGINES = [
    dict(name="numeric_pbt", path="harness/numeric_pbt.cpp", serves_properties=["C19", "C20"],
         kind_free_text="rapidcheck-driven generated inputs vs exact-integer reference and validity predicates"),
]

MANIFEST_TEXT = {
    "C19": dict(engine="numeric_pbt", design_ref="DESIGN.md 6/C19",
                technique="property-based testing: generated (count, rate) pairs vs exact 128-bit integer reference + metamorphic monotonicity",
                text="Generated-input search (boundary tables + uniform draws over the stated domain) comparing the compiled functions "
                     "with an exact integer reference; not a proof over the integers.",
                note="Trusts IEEE-754 arithmetic of the harness and the reference written from the property statement."),
    "C20": dict(engine="numeric_pbt", design_ref="DESIGN.md 6/C20",
                technique="property-based testing: generated beat grids vs independent trimming + validity predicate + idempotence",
                text="Generated grids of every placement shape against an independently written trimming and a validity predicate "
                     "(index -4, end bracket, tempo kept, interior bit-identical, idempotent).",
                note="Grids strictly increasing, indices within 32-bit range; floating-point tolerance 1e-9 relative as stated in DESIGN."),
}

_WIP = "check under construction in this session (harness not yet committed); will be claimed once it runs green and has been sensitivity-tested"
NOT_APPLICABLE = {p: _WIP for p in ["C%02d" % i for i in range(1, 19)]}
