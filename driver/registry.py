"""Which harness binary decides which property, with the budgets of each tier."""

HARNESSES = {
    "numeric_pbt": dict(sources=["numeric_pbt.cpp"], variant="san"),
    "codec_pbt": dict(sources=["codec_pbt.cpp"], variant="san"),
    "api_pbt": dict(sources=["api_pbt.cpp"], variant="san"),
    "table_pbt": dict(sources=["table_pbt.cpp"], variant="san"),
    "schema_pbt": dict(sources=["schema_pbt.cpp"], variant="san"),
}

_CODEC_ESS_KINDS = ["kind=v2.track_data", "kind=v2.beat_data", "kind=v2.quick_cues", "kind=v2.loops", "kind=v2.overview_waveform",
                    "kind=v1.track_data", "kind=v1.beat_data", "kind=v1.high_res_waveform", "kind=v1.overview_waveform",
                    "kind=v1.quick_cues", "kind=v1.loops"]

_ALL_SCHEMAS = ["schema=" + x for x in ['1.6.0', '1.7.1', '1.9.1', '1.11.1', '1.13.0', '1.13.1', '1.13.2', '1.15.0', '1.17.0', '1.18.0 (Desktop)', '1.18.0 (OS)', '2.18.0', '2.20.1', '2.20.2', '2.20.3', '2.21.0', '2.21.1', '2.21.2']]
_V2_SCHEMAS = [x for x in _ALL_SCHEMAS if x.startswith("schema=2.")]
_SETTERS = ["album", "artist", "average_loudness", "beatgrid", "bitrate", "bpm", "comment", "composer", "duration", "genre", "hot_cue_at",
            "hot_cues", "key", "last_played_at", "loop_at", "loops", "main_cue", "publisher", "rating", "relative_path", "sample_count",
            "sample_rate", "title", "track_number", "waveform", "year"]

CHECKS = {
    "C01": dict(level="exploration", parts=[
        dict(prop="REG", harness="api_pbt", quick=dict(count=0, workers=1), thorough=dict(count=0, workers=1)),  # regression scenarios
        dict(prop="C01", harness="api_pbt", quick=dict(count=4000, workers=8), thorough=dict(count=120000, workers=16),
             essential=_ALL_SCHEMAS + ["mode=update", "cue-slot0", "cue-slot7", "loop-slot7", "label=255", "key=c_major", "sample_rate:absent",
                                       "grid:1-marker", "write-rejected", "write-accepted", "waveform:recommended-size", "sample_count>=2^63",
                                       "bpm:fractional", "offset=-1", "waveform:opacity", "after-removed-track"])]),
    "C06": dict(level="exploration", parts=[
        dict(prop="REG", harness="api_pbt", quick=dict(count=0, workers=1), thorough=dict(count=0, workers=1)),  # regression scenarios
        dict(prop="C06", harness="api_pbt", quick=dict(count=1600, workers=8), thorough=dict(count=60000, workers=16),
             essential=_ALL_SCHEMAS + ["1.x:set_" + x for x in _SETTERS] + ["2.x:set_" + x for x in _SETTERS] +
                       ["slot-index=%d" % i for i in range(8)] + ["shared-storage pair", "setter-rejected", "setter-via-second-handle", "set_relative_path:path-of-another-track"])]),
    "C07": dict(level="exploration", parts=[
        dict(prop="REG", harness="api_pbt", quick=dict(count=0, workers=1), thorough=dict(count=0, workers=1)),  # regression scenarios
        dict(prop="C07", harness="api_pbt", quick=dict(count=6000, workers=8), thorough=dict(count=200000, workers=16),
             essential=_ALL_SCHEMAS + ["depth>=3", "move-non-last-sibling", "remove-with-subtree", "cycle-attempt", "name:invalid",
                                       "rename-above-grandchildren", "move-into-empty-parent", "duplicate-name-rejected",
                                       "move:older-under-newer", "prelude:inverted-ages", "1.x:cycle-attempt:onto-older-descendant",
                                       "2.x:cycle-attempt:onto-older-descendant", "decoy-library", "decoy-step", "ops-via-second-handles"]),
        # bounded-exhaustive over applicable operations only (subsumes the former 42-letter enumerations enum2 / enum3): every sequence of
        # <= 4 (quick, 3 schemas; thorough, all 18 schemas) / <= 5 (thorough, 3 schemas) applicable operations from the empty library
        dict(prop="C07.dfs4", harness="api_pbt", quick=dict(count="enum", workers=8), thorough=dict(count=0, workers=1),
             essential=["schema=1.6.0", "schema=1.18.0 (OS)", "schema=2.21.2", "enum:full-length", "live-crates=4", "live-crates=0", "depth>=3", "cycle-attempt"]),
        dict(prop="C07.dfs5", harness="api_pbt", quick=dict(count=0, workers=1), thorough=dict(count="enum", workers=16),
             essential=["schema=1.6.0", "schema=1.18.0 (OS)", "schema=2.21.2", "enum:full-length", "live-crates=4", "live-crates=0", "depth>=3", "cycle-attempt"]),
        dict(prop="C07.dfs4all", harness="api_pbt", quick=dict(count=0, workers=1), thorough=dict(count="enum", workers=16),
             essential=_ALL_SCHEMAS + ["enum:full-length", "live-crates=4", "depth>=3", "cycle-attempt"])]),
    "C08": dict(level="exploration", parts=[
        dict(prop="REG", harness="api_pbt", quick=dict(count=0, workers=1), thorough=dict(count=0, workers=1)),  # regression scenarios
        dict(prop="C08", harness="api_pbt", quick=dict(count=4000, workers=8), thorough=dict(count=150000, workers=16),
             essential=_ALL_SCHEMAS + ["diverged-ids", "remove-member-track", "remove-crate-with-members", "track-created-after-removal",
                                       "add-existing-member", "remove-non-member", "1.x:add_track(id)", "2.x:add_track(id)",
                                       "1.x:clear_tracks", "2.x:clear_tracks", "decoy-library", "decoy-step", "ops-via-second-handles"])]),
    "C09": dict(level="exploration", parts=[
        dict(prop="REG", harness="api_pbt", quick=dict(count=0, workers=1), thorough=dict(count=0, workers=1)),  # regression scenarios
        dict(prop="C09", harness="api_pbt", quick=dict(count=2400, workers=8), thorough=dict(count=100000, workers=16),
             essential=_V2_SCHEMAS + ["move:first-of>=3", "move:middle-of>=3", "move:last-of>=3", "move-into-empty-parent",
                                      "remove-entity:middle-of>=3", "insert-after:middle-of>=3", "insert-after:first-of>=3",
                                      "remove-sibling:middle-of>=3", "remove-sibling:first-of>=3", "decoy-library", "decoy-step", "ops-via-second-handles"]),
        dict(prop="C09.table", harness="table_pbt", quick=dict(count=3000, workers=4), thorough=dict(count=120000, workers=16),
             essential=_V2_SCHEMAS + ["entity:add_back", "entity:remove-non-last", "entity:clear", "playlist:remove", "playlist:add-before-sibling",
                                      "playlist:move-reorder", "playlist:move-reparent"])]),
    "C10": dict(level="exploration", parts=[
        dict(prop="REG", harness="api_pbt", quick=dict(count=0, workers=1), thorough=dict(count=0, workers=1)),  # regression scenarios
        dict(prop="C10", harness="api_pbt", quick=dict(count=2000, workers=8), thorough=dict(count=60000, workers=16),
             essential=_ALL_SCHEMAS + ["reopen>=2", "create_or_load:create", "create_or_load:load", "create_or_load:other-generation-arg", "track-with-performance-data", "value>=100KB"])]),
    "C11": dict(level="exploration", parts=[
        dict(prop="REG", harness="api_pbt", quick=dict(count=0, workers=1), thorough=dict(count=0, workers=1)),  # regression scenarios
        dict(prop="C11", harness="api_pbt", quick=dict(count=1600, workers=8), thorough=dict(count=50000, workers=16),
             essential=_ALL_SCHEMAS + ["set_relative_path", "remove-with-subtree", "move-non-last-sibling", "remove-member-track",
                                       "track-with-performance-data", "set_relative_path:no-extension"])]),
    "C12": dict(level="exploration", exhaustive=True,
                exhaustive_scope="the 18 schemas x {on-disk, temporary} are enumerated completely against all 62 reference dumps; the normaliser property is sampled",
                parts=[
        dict(prop="C12", harness="schema_pbt", quick=dict(count="enum", workers=6), thorough=dict(count="enum", workers=6),
             essential=_ALL_SCHEMAS + ["schema=3.0.0", "form=on-disk", "form=temporary", "several-references"]),
        dict(prop="C12.norm", harness="schema_pbt", quick=dict(count=4000, workers=4), thorough=dict(count=200000, workers=16),
             essential=["norm:equal-under-respelling", "norm:token-deleted", "norm:token-substituted"]),
    ]),
    "C13": dict(level="exploration", exhaustive=True,
                exhaustive_scope="every version triple in major 0..4 x minor 0..25 x patch 0..4 in both directory layouts, the 8-entry presence matrix, 20 outlier triples x 2 layouts, both 1.18.0 variants; the in-place walk (one directory, version rewritten and reloaded several times in one process) is sampled",
                parts=[
        dict(prop="C13", harness="schema_pbt", quick=dict(count="enum", workers=8), thorough=dict(count="enum", workers=16),
             essential=["supported-triple", "supported-triple-in-other-layout", "unsupported-neighbour", "unsupported-triple", "outlier",
                        "presence-matrix", "variant-marker", "3.0.0", "stray-entries"]),
        # sampled: one directory, stored version rewritten in place 2..6 times, loaded after each rewrite in the same process
        dict(prop="C13.walk", harness="schema_pbt", quick=dict(count=1600, workers=8), thorough=dict(count=80000, workers=16),
             essential=["supported-triple", "unsupported-neighbour", "unsupported-triple", "walk:loaded-then-other-supported",
                        "walk:loaded-then-unsupported", "walk:rejected-then-loaded", "walk:1.18.0-base"]),
    ]),
    "C17": dict(level="exploration", parts=[
        dict(prop="C17", harness="schema_pbt", quick=dict(count=3200, workers=8), thorough=dict(count=120000, workers=16),
             essential=_ALL_SCHEMAS + ["schema=3.0.0", "file=m.db", "file=p.db", "effective-mutant", "equivalent-mutant"] +
                       [f + k for f in ("1.x:", "2.x:") for k in ['drop-table', 'rename-table', 'add-table', 'drop-view', 'rename-view', 'add-view', 'add-column', 'drop-column', 'rename-column', 'change-type', 'add-notnull', 'add-default', 'drop-index', 'add-index', 'flip-unique', 'reorder-columns', 'drop-default',
                                                                         'change-default', 'drop-notnull', 'drop-pk', 'index-columns']] +
                       ["effective:1.x:drop-default", "effective:1.x:change-default", "effective:2.x:drop-notnull", "effective:2.x:drop-pk",
                        "effective:1.x:add-default", "effective:2.x:add-default", "effective:1.x:change-type", "effective:2.x:change-type"]),
        # no randomness: every table / view / index / column of every schema x the mutation kinds (quick: whole-element kinds and drop / rename /
        # retype of every column; thorough: all 20 kinds wherever they apply)
        dict(prop="C17.enum", harness="schema_pbt", quick=dict(count="enum", workers=8), thorough=dict(count=0, workers=1),
             essential=_ALL_SCHEMAS + ["schema=3.0.0", "file=m.db", "file=p.db", "effective-mutant", "enum"] +
                       [f + k for f in ("1.x:", "2.x:") for k in ["drop-table", "rename-table", "drop-view", "rename-view", "drop-index", "flip-unique", "drop-column", "rename-column", "change-type", "add-notnull", "index-columns"]] +
                       ["add-notnull:key-column"]),
        dict(prop="C17.enumAll", harness="schema_pbt", quick=dict(count=0, workers=1), thorough=dict(count="enum", workers=16),
             essential=_ALL_SCHEMAS + ["schema=3.0.0", "file=m.db", "file=p.db", "effective-mutant", "equivalent-mutant", "enum"]),
        dict(prop="C17.refs", harness="schema_pbt", quick=dict(count="enum", workers=8), thorough=dict(count="enum", workers=8),
             essential=[x for x in _ALL_SCHEMAS if x != "schema=1.6.0"]),
    ]),
    "C14": dict(level="fault_enumeration", exhaustive_note="every fault position k of each generated (state, operation) pair", parts=[
        dict(prop="REG", harness="api_pbt", quick=dict(count=0, workers=1), thorough=dict(count=0, workers=1)),  # regression scenarios
        dict(prop="C14", harness="api_pbt", quick=dict(count=2400, workers=8), thorough=dict(count=80000, workers=16),
             essential=_ALL_SCHEMAS + ["W>=2", "k>=2", "read-fault", "raw-tables-compared"] + [f + m for f in ("1.x:", "2.x:") for m in
                 ["create_track", "update", "remove_track"] + ["set_" + x for x in _SETTERS] +
                 ["create_root_crate", "create_sub_crate", "create_root_crate_after", "create_sub_crate_after", "set_name", "set_parent",
                  "add_track(track)", "add_track(id)", "crate::remove_track", "clear_tracks", "remove_crate"]]),
        dict(prop="C14.table", harness="table_pbt", quick=dict(count=640, workers=8), thorough=dict(count=30000, workers=16),
             essential=_V2_SCHEMAS + ["W>=2", "k>=2", "read-fault", "raw-tables-compared"] + ["table:" + m for m in
                 ["playlist.add", "playlist.update", "playlist.move", "playlist.remove", "entity.add_back", "entity.remove", "entity.clear",
                  "track.add", "track.update", "track.remove", "track.set_column", "change_log.add", "information.played_indicator"]] +
                 ["W>=2:playlist.move", "W>=2:playlist.remove", "W>=2:entity.add_back", "W>=2:track.remove"])]),
    "C15": dict(level="exploration", parts=[
        dict(prop="REG", harness="api_pbt", quick=dict(count=0, workers=1), thorough=dict(count=0, workers=1)),  # regression scenarios
        dict(prop="C15", harness="api_pbt", quick=dict(count=6000, workers=8), thorough=dict(count=250000, workers=16),
             essential=_ALL_SCHEMAS + [f + x for f in ("1.x:", "2.x:") for x in (
                 "hot_cue_at(bad)", "set_hot_cue_at(bad)", "loop_at(bad)", "set_loop_at(bad)", "set_hot_cues(hostile)", "set_loops(hostile)",
                 "set_sample_rate(hostile)", "set_bpm(hostile)", "set_beatgrid(hostile)", "hostile-snapshot", "add_track(nonexistent id)", "remove_track(nonexistent id entry)",
                 "crate_by_id(any)", "track_by_id(any)", "create_sub_crate_after(foreign)", "create_root_crate_after(foreign)",
                 "removed-crate-handle", "removed-track-handle", "set_name(odd)", "create_root_crate(odd)", "lookups(odd)", "set_parent(descendant)")] +
                       ["cycle-attempt", "helpers(extreme)"])]),
    "C16": dict(level="exploration", parts=[
        dict(prop="REG", harness="api_pbt", quick=dict(count=0, workers=1), thorough=dict(count=0, workers=1)),  # regression scenarios
        dict(prop="C16", harness="api_pbt", quick=dict(count=1600, workers=8), thorough=dict(count=50000, workers=16),
             essential=_ALL_SCHEMAS + ["on-disk", "in-memory", "files-compared", "track-with-performance-data", "non-finite-values-stored"]),
        dict(prop="C16.table", harness="table_pbt", quick=dict(count=1200, workers=4), thorough=dict(count=40000, workers=16),
             essential=_V2_SCHEMAS + ["on-disk", "in-memory", "files-compared", "dangling-entities", "value-related-rows"])]),
    "C02": dict(level="exploration", parts=[
        dict(prop="C02.enc", harness="codec_pbt", quick=dict(count=24000, workers=8), thorough=dict(count=2400000, workers=16),
             essential=_CODEC_ESS_KINDS + ["label=255", "payload>16KiB", "payload=chunk-multiple", "payload=chunk-multiple-1", "payload=chunk-multiple+1"]),
        dict(prop="C02.dec", harness="codec_pbt", quick=dict(count=24000, workers=8), thorough=dict(count=2400000, workers=16),
             essential=_CODEC_ESS_KINDS + ["label=255", "zlib-stored", "foreign:flag", "foreign:zero-tail", "payload=chunk-multiple", "payload=chunk-multiple-1", "payload=chunk-multiple+1",
                                           "after-rejected-decode"]),
        dict(prop="C02.e2e", harness="api_pbt", quick=dict(count=2400, workers=6), thorough=dict(count=100000, workers=16),
             essential=_ALL_SCHEMAS + ["write-accepted", "mode=update", "cue-slot7", "label=255", "waveform:recommended-size", "key=c_major"]),
    ]),
    "C03": dict(level="exploration", parts=[
        dict(prop="C03", harness="codec_pbt", quick=dict(count=40000, workers=8), thorough=dict(count=3300000, workers=16),
             essential=_CODEC_ESS_KINDS + ["label=255", "label=256", "label=300", "entries=8", "entries=9", "entries=12", "double:nan",
                                           "grid:1-marker", "grid:unsorted", "grid:>32768", "extra-data", "encode-rejected", "payload=chunk-multiple", "payload=chunk-multiple-1", "payload=chunk-multiple+1",
                                           "after-rejected-decode"]),
        dict(prop="C03.reg", harness="codec_pbt", quick=dict(count=0, workers=1), thorough=dict(count=0, workers=1)),  # regression scenarios only
    ]),
    "C04": dict(level="exploration", parts=[
        dict(prop="C04", harness="codec_pbt", quick=dict(count=20000, workers=8), thorough=dict(count=1500000, workers=16),
             essential=["kind=v2.track_data", "kind=v2.beat_data", "kind=v2.quick_cues", "kind=v2.loops", "kind=v2.overview_waveform",
                        "count!=8", "flag>1", "v2.track_data:tail", "v2.overview_waveform:tail", "v2.beat_data:tail", "v2.loops:tail",
                        "v2.quick_cues:tail", "payload=chunk-multiple", "payload=chunk-multiple-1", "payload=chunk-multiple+1"]),
        dict(prop="C04.fuzz", kind="fuzz", targets=[0, 1, 2, 3, 4], quick_runs=150000, thorough_runs=6000000),
        dict(prop="REG", harness="api_pbt", quick=dict(count=0, workers=1), thorough=dict(count=0, workers=1)),  # regression scenarios
        dict(prop="C04.api", harness="api_pbt", quick=dict(count=3000, workers=6), thorough=dict(count=150000, workers=16),
             essential=_V2_SCHEMAS + ["setter=" + x for x in ["main_cue", "hot_cue_at", "hot_cues", "loop_at", "loops", "key", "sample_count", "sample_rate",
                                                              "average_loudness", "beatgrid", "waveform", "title", "rating", "bpm", "relative_path"]] + ["multi-step"]),
    ]),
    "C05": dict(level="exploration", parts=[
        dict(prop="C05", harness="codec_pbt", quick=dict(count=60000, workers=8), thorough=dict(count=6000000, workers=16),
             essential=_CODEC_ESS_KINDS + ["mut:count", "frame:prefix", "frame:truncated-stream", "frame:short-raw", "frame:corrupt-stream",
                                           "zlib:returned", "zlib:rejected"]),
        # deterministic, complete enumeration around fixed valid blobs: 6 seeds per kind (quick) / 30 larger seeds per kind (thorough)
        dict(prop="C05.enum", harness="codec_pbt", quick=dict(count="enum", workers=8), thorough=dict(count=0, workers=1),
             essential=_CODEC_ESS_KINDS + ["kind=zlib_uncompress"] + ["enum:" + f for f in "TBZFPSCXY"]),
        dict(prop="C05.enumL", harness="codec_pbt", quick=dict(count=0, workers=1), thorough=dict(count="enum", workers=16),
             essential=_CODEC_ESS_KINDS + ["kind=zlib_uncompress"] + ["enum:" + f for f in "TBZFPSCXY"]),
        dict(prop="C05.fuzz", kind="fuzz", targets=list(range(12)), quick_runs=200000, thorough_runs=8000000),
    ]),
    "C18": dict(level="exploration", parts=[
        dict(prop="REG", harness="api_pbt", quick=dict(count=0, workers=1), thorough=dict(count=0, workers=1)),  # regression scenarios
        dict(prop="C18", harness="table_pbt", quick=dict(count=2400, workers=8), thorough=dict(count=80000, workers=16),
             essential=_V2_SCHEMAS + ["column-range=0", "column-range=1", "column-range=2", "row>=40-populated", "add", "update", "remove",
                                      "nonexistent-row", "unsupported-column", "origin:fix-up", "collision:rejected", "collision:add:path", "collision:update:path",
                                      "collision:set:path", "collision:set:origin", "collision:update:origin"] +
                       ["set_" + c for c in ["play_order", "length", "bpm", "year", "path", "filename", "bitrate", "bpm_analyzed", "album_art_id",
                        "file_bytes", "title", "artist", "album", "genre", "comment", "label", "composer", "remixer", "key", "rating",
                        "album_art", "time_last_played", "is_played", "file_type", "is_analyzed", "date_created", "date_added",
                        "is_available", "is_metadata_of_packed_track_changed", "is_performance_data_of_packed_track_changed",
                        "played_indicator", "is_metadata_imported", "pdb_import_key", "streaming_source", "uri", "is_beat_grid_locked",
                        "origin_database_uuid", "origin_track_id", "track_data", "overview_waveform_data", "beat_data", "quick_cues", "loops",
                        "third_party_source_id", "streaming_flags", "explicit_lyrics", "active_on_load_loops", "last_edit_time"]]),
        dict(prop="C18.lists", harness="table_pbt", quick=dict(count=4000, workers=8), thorough=dict(count=200000, workers=16),
             essential=_V2_SCHEMAS + ["playlist:add", "playlist:update", "playlist:remove", "playlist:nonexistent", "entity:add_back",
                                      "entity:clear", "entity:remove-non-last", "playlist:add-before-sibling", "playlist:move-reorder",
                                      "playlist:move-reparent", "playlist:move+fields", "changelog:add", "information:played-indicator",
                                      "entity:foreign-uuid", "entity:same-track-two-databases"]),
    ]),
    "C19": dict(level="exploration", parts=[
        dict(prop="REG", harness="api_pbt", quick=dict(count=0, workers=1), thorough=dict(count=0, workers=1)),  # regression scenarios
        dict(prop="C19", harness="numeric_pbt",
             quick=dict(count=400000, workers=8), thorough=dict(count=48000000, workers=16),
             essential=["n_mod_q=0", "n_mod_q=1", "n_mod_q=q-1", "n>2^53", "q=0", "n=0"])]),
    "C20": dict(level="exploration", parts=[
        dict(prop="REG", harness="api_pbt", quick=dict(count=0, workers=1), thorough=dict(count=0, workers=1)),  # regression scenarios
        dict(prop="C20", harness="numeric_pbt",
             quick=dict(count=200000, workers=8), thorough=dict(count=16000000, workers=16),
             essential=["marker-exactly-at-end", "grid-entirely-inside", "last-marker-far-beyond", "trimmed",
                        "interior-markers", "unnormalisable", "empty-grid"])]),
}

RULES = {
    "C01": "Case = (schema out of the 18 supported, create or update over a second independently generated stored snapshot - one time in four after another track was written, read and removed in the same library - one generated "
           "track_snapshot: every optional field absent/present, strings incl. empty/quotes/UTF-8/300+ bytes, ints at the edges of int, ratings "
           "-100..255 and INT_MIN/MAX, durations and time points with sub-second parts incl. negative/pre-1970, sample counts up to 2^64-1, "
           "0..8 cue/loop slots populated at every position (9..12 and labels > 255 / empty as rejection classes), offsets -1/0/fractional/"
           "negative/1e15, grids of 0/1/2/3..64 markers incl. unsorted, waveforms of 0/1/7/1000/1024/recommended size with and without opacity). "
           "Oracle: (a) snapshot() after the write equals the expected read-back table N(schema, s) of DESIGN appendix A field by field "
           "(doubles by bit pattern); (b) writing the read-back snapshot again and reading once more gives the identical snapshot; (c) if the "
           "write threw, the number of tracks / the previously stored snapshot are unchanged. Non-trivial = write accepted and the snapshot has "
           ">=1 populated cue, loop, grid marker or waveform entry; distinct = distinct (schema, mode, snapshot) renderings.",
    "C06": "Case = schema, 1..3 tracks created from generated snapshots, then up to 12 (quick) setter calls [track, one of the 26 setters incl. "
           "set_hot_cue_at/set_loop_at at each index 0..7, generated in-domain value], each call made through the handle create_track returned or, one time in three, "
           "through a second handle to the same track obtained by a separate track_by_id lookup and kept for the whole history. Model-based: after every step, for every track, each "
           "getter equals the model (expected read-back of the value last set), each getter equals the corresponding snapshot() field, "
           "filename()/file_extension() are derived from the path, and a setter that threw changed nothing. Non-trivial = two consecutive "
           "successful setters on one track hit the same storage (same blob / row / metadata table) or >=2 tracks were modified.",
    "C07": "Case = schema + up to 15 crate operations (create root/sub crate [after a sibling], set_name, set_parent to any crate incl. self/"
           "descendants/none, remove_crate), names from a 4-letter pool (to collide), fresh, unicode, quoted and invalid (empty, with ';'); "
           "entities are named by index modulo the live crates so every subsequence is valid; half of the cases start from a deep forest whose "
           "oldest root is, one time in three, moved under the newest root, and re-parenting is biased towards crates with descendants, legal "
           "older-under-newer moves and cycle attempts onto a descendant that is older (smaller id) than the crate moved. Forest model + validity predicates after every "
           "step: crates() = live set; parent() = model; children(c) = {d: parent(d)=c}; descendants = closure; root_crates = parentless; "
           "crate_by_id finds exactly live ids (probed with removed and never-issued ids); crates_by_name / root_crate_by_name / "
           "sub_crate_by_name agree with the model; ids stable and new ids distinct from live ids (2.x: from every id ever issued); removed "
           "handles invalid. Invalid names and cycle attempts must throw; legal operations must succeed unless a sibling name collides; "
           "remove_crate may remove the subtree or re-root survivors (model adopts what the library did, invariants must then hold). "
           "Additionally a bounded-exhaustive part: every sequence of at most 4 (quick) / 5 (thorough) applicable operations, starting from the "
           "empty library, from the alphabet {create root crate A|B, create sub-crate A|B of live crate k, rename live crate k to A|B, re-parent "
           "live crate k under live crate j (incl. itself and its descendants) or to the root, remove live crate k} with at most 4 live crates "
           "(2/9/18/29/32 applicable operations with 0/1/2/3/4 live crates; 28 188 cases at depth 4, 902 016 at depth 5) on 1.6.0 (Crate table), "
           "1.18.0 OS (Crate view over List) and 2.21.2, and at depth 4 on all 18 schemas in the thorough tier; invariants after every step, shorter "
           "sequences are covered as prefixes. Non-trivial = depth >=2 and a rename/move/remove hit a crate with descendants, or a cycle attempt was made.",
    "C08": "Case = schema + id-diverging prelude (0..2 tracks created and removed, 1..3 live tracks, 1..3 crates) + up to 27 operations "
           "(create/remove track, create/remove crate, add_track by handle and by id, crate::remove_track, clear_tracks). Membership model: "
           "after every step every live crate's tracks() equals the model set as a multiset, every handle is_valid(), on 1.x "
           "containing_crates() is the exact converse (2.x: not implemented, tolerated), tracks() of the database equals the live tracks. "
           "Non-trivial = a membership operation ran with crate id != track id and a member track or a crate with members was removed earlier.",
    "C09": "Case = 2.x schema + prelude (2..5 root crates, 0..4 sub-crates of the first root, 0..5 tracks added to the second root) + up to 27 "
           "operations (positional and plain creates, set_parent, set_name, remove_crate, membership operations). Order model: "
           "create_*_after(x) inserts immediately after x; plain create and move append (a move within the same parent may stay or go last); "
           "remove deletes; entries are listed in insertion order minus removed. After every step root_crates(), children(c) and tracks(c) "
           "must equal the model lists exactly (order included) and the forest invariants of C07 hold. table part: playlist_table add (at the end or before a chosen sibling) / update (plain, or moving the row to another position "
           "and/or parent) / remove with child_ids(), root_ids() and every row's next_list_id checked against the ordered sibling model, and "
           "playlist_entity_table add_back / remove (first, middle, last) / clear against the same ordered model (track_ids = insertion "
           "order minus removed). Non-trivial = an insert/move/remove at a non-last position.",
    "C10": "Case = schema + on-disk library in a scratch directory under /dev/shm + history of crate, membership and track operations (full "
           "snapshots, setters, updates; one case in twelve also holds a track whose comment is 0.1 / 1.2 / 5 MB long) + up to three close points. At each close point Obs (canonical dump through the public API: every "
           "track's snapshot and getters, every crate's name/parent/children/descendants/tracks, roots, by-name lookups, uuid, version) is "
           "taken, all handles are released, the library is loaded again (load_database, or create_or_load_database at the end) and Obs must be "
           "identical; the reported schema must be the creation schema; create_or_load reports created exactly when the directory held no "
           "library; database_exists agrees. Non-trivial = state at a close point has >=1 track and >=1 membership or nested crate.",
    "C11": "Case = schema + on-disk library + history as C10. After every step an independent reader (the harness's own read-only SQLite "
           "connection + refcodec, none of the library's accessors) checks: integrity_check ok and foreign_key_check empty on each file, "
           "verify() passes, every stored blob decodes, 1.x Crate.path / CrateParentList / CrateHierarchy all describe the model forest, 2.x "
           "nextListId / nextEntityId chains are single acyclic lists with one tail per parent / list, file name / extension (fileType) / origin "
           "ids agree with the path and the database uuid. Non-trivial = a step changed a crate with descendants or a track path.",
    "C12": "Enumerated: every supported schema (18) and 3.0.0 (which has a creator although supported_schemas omits it) x {created on disk, created as temporary database}. The 62 reference dumps of "
           "testdata/ref are hydrated by the harness itself (own SQLite connection, script executed verbatim) and assigned to a schema by "
           "their own Information row (and product line for the two 1.18.0 variants). Oracle: the multiset of (type, name, tbl_name, "
           "normalise(sql)) of the created library's sqlite_master (m.db and p.db; temporary libraries are read through the library's own "
           "connection obtained from the sqlite3_step shim) equals that of a reference of the same version, where normalise strips identifier "
           "quoting, collapses whitespace and drops whitespace next to ( ) , ; = < > and nothing else; stored version numbers match in both "
           "files; verify() passes; reload reports the requested version. The normaliser is itself property-tested on the reference DDL: random "
           "re-spacing / re-quoting must compare equal, deleting or altering one token must compare unequal. Non-trivial = (schema, form) "
           "pairs that have a reference (17 of 18 schemas); distinct = pairs.",
    "C13": "Enumerated: stored version triples major 0..4 x minor 0..25 x patch 0..4 (650, containing all 18 supported triples and all their "
           "neighbours) x both directory layouts, 20 outlier triples (negative, 2^31-1, values that alias supported numbers modulo 256/65536) "
           "x both layouts, the presence matrix of m.db / Database2/m.db / missing directory, six stray-entry cases (an empty or non-database Database2 directory next to a legacy library, a stray p.db next to a Database2 library, ...), and both 1.18.0 variants with and without data. "
           "A library of the nearest supported schema is created by the library, closed, and the harness's own connection rewrites the "
           "Information version columns (both files for 1.x). Oracle = a literal decision table of the 18 supported triples: supported triple "
           "in its own layout loads as exactly that schema (right 1.18.0 variant); any other triple -> unsupported_database; no database or "
           "both layouts -> database_not_found; database_exists() consistent. Tolerances: (3,0,0) may load as 3.0.0 or be rejected; a supported "
           "triple in the other layout may load as exactly that schema or be rejected. Non-trivial = triples within distance 1 of a supported one. "
           "Sampled part C13.walk: ONE library directory (any supported schema of either layout) whose stored triple is rewritten in place 2..6 times "
           "(creation version, another supported version of the layout, a neighbour, an outlier, a box value; same file, same size, normally within one "
           "second) and loaded after every rewrite in the same process, each load judged by the same decision table - what an earlier load of the "
           "directory found must not matter. Non-trivial there = a load that follows a successful load of a different triple.",
    "C17": "Case = schema x file (m.db / p.db / Database2/m.db) x one of 21 mutation kinds (drop/rename/add table, view; add/drop/rename "
           "column; change a column's declared type, add NOT NULL, add DEFAULT, drop DEFAULT, change DEFAULT, drop NOT NULL, drop a column's PRIMARY "
           "KEY (the last four choose among the tables/columns that declare one); drop/add index, flip an index's uniqueness, append a column to an index's column list; reorder two columns) "
           "applied to a freshly created on-disk library by the harness's own connection (ALTER TABLE or a writable_schema edit of the stored "
           "DDL found by a top-level comma split); the element is chosen from the library's own sqlite_master / table_info. Mutants failing "
           "integrity_check or not loadable are discarded and counted. Oracle: an independently computed structural fingerprint (tables, views, "
           "per table (column, type, notnull, default, pk) and (index, unique, origin, partial, columns)); fingerprint changed => verify() must "
           "throw database_inconsistency; unchanged (equivalent mutant) => verify() must pass. Enumerated part (no randomness): for every schema and "
           "file, every table, view and index x {drop, rename / flip uniqueness}, one added table / view / column per table, and every column of every "
           "table x {drop, rename, change type} (quick) resp. x all column kinds incl. add index on it, add NOT NULL / DEFAULT, swap with successor and, where "
           "declared, drop / change DEFAULT, drop NOT NULL, drop PRIMARY KEY (thorough), same oracle. Further part, enumerated: every reference dump, "
           "hydrated by the library's own create_database_from_scripts, must pass verify() when its version is supported. Non-trivial = "
           "effective mutants; distinct = (schema, file, mutation, element).",
    "C14": "Case = schema x one of the 40 public mutating operations (create_track, update, remove_track, the 26 setters, the four crate "
           "creates, set_name, set_parent, both add_track overloads, crate::remove_track, clear_tracks, remove_crate) x a prior state (two "
           "tracks with performance data, crates A > C and B, three memberships, plus 0..4 generated operations) x EVERY fault position: a dry "
           "run counts the W non-read-only statements (plus COMMIT) the operation steps through the sqlite3_step shim; for each k in 1..W the "
           "state is rebuilt, the k-th such statement returns SQLITE_IOERR without executing, and the call must throw, Obs (canonical public-"
           "API dump) must equal Obs before the call, no transaction may stay open, and the same operation must then succeed. Second fault class, same "
           "oracle: every step of a statement the call only reads with (each SELECT row fetch, BEGIN, PRAGMA; ROLLBACK excepted; first 40 positions), "
           "counted only while the harness is inside the library call, so that a read failing after the call has already written is covered too. Non-trivial = "
           "operations with W >= 2; distinct = distinct (schema, state, operation, arguments). Table part: the same loop over the 13 mutating calls "
           "of the 2.x table API (playlist add / update / moving update / remove, entity add_back / remove / clear, track add / update / remove / "
           "set_<column>, change_log add, played indicator) on a generated state of 1-3 full track rows and 2-5 nested playlists with entries; "
           "Obs = every table-level observer, unclipped.",
    "C15": "Case = schema + optional prelude + up to 23 operations drawn from every public operation with hostile arguments: slot indices "
           "-2..10 and INT_MIN/MAX, 0..12 slot vectors, labels up to 300 bytes, NaN/inf/1e300/negative sample rates and bpm, unsorted grids "
           "with INT_MIN/INT_MAX indices, any 64-bit duration, absent/extension-less paths, ids of nonexistent tracks/crates (incl. INT64 "
           "edges), crates from elsewhere as `after`, self/descendant parents, empty/';'/5000-byte/NUL names, numeric helpers with NaN and "
           "2^64-1; removed handles are only copied, assigned, destroyed and asked for id()/is_valid(). Oracle: every call returns or throws "
           "std::exception; no ASan/UBSan/_GLIBCXX_ASSERTIONS/assert report; per-case watchdog 60 s; removed handles report !is_valid(). "
           "Non-trivial = a hostile call on a state with >=1 track and >=1 crate.",
    "C16": "Case = schema + (on-disk or in-memory) + history as C10 (one case in three then also stores non-finite doubles - NaN loudness / main cue / cue offset / bpm / grid offset, infinite loop end - where the setters accept them); then an observation phase: Obs twice and verify() twice. Four signals: "
           "the sqlite3_step shim saw no non-read-only statement, sqlite3_total_changes did not move, both Obs are equal, and for on-disk "
           "libraries a digest of every file in the database directory is unchanged by database_exists(), load_database(), Obs and verify() "
           "on the reloaded library. table part: the same write monitor around every observing operation of the 2.x table API (track_table "
           "get / get_<col> / all_ids / exists / find_id_by_path, playlist_table get / all_ids / child_ids / descendant_ids / exists / find_* / "
           "root_ids, playlist_entity_table get / get_for_list / track_ids, information().get(), verify()) on generated rows and lists, incl. "
           "entities that refer to a list / track that does not exist and rows related by value (a track stamped with the library's current played indicator, a track whose origin is this library, an entity of a foreign database); on-disk variants also compare file digests around exists(), "
           "engine_library::load + observation and load_database. "
           "Non-trivial = state has >=1 track and >=1 membership or nested crate.",
    "C02": "Two generated campaigns over all 11 blob kinds. enc: a logical value (finite doubles, labels 0..255 bytes of arbitrary content, "
           "0..20 cue/loop entries, grids/waveforms of 0..60 entries plus 1024 and large sizes; one 2.x value in ten has its trailing data padded so that the payload "
           "ends on a 16384-byte zlib chunk boundary or one byte off it) is encoded by the library and decoded by "
           "refcodec (independent table-driven layout reader, one-shot zlib, verifies the length prefix and that the stream ends at the end "
           "of the blob); the tokens must equal the harness's own value->layout mapping. dec: the same values are encoded by refcodec "
           "(zlib level -1..9, 1.x blobs additionally with foreign flag bytes, unknown fields, zero tails, arbitrary max entries) and "
           "decoded by the library; the result must equal the value bit for bit. Non-trivial = value has >=1 repeated entry or the blob "
           "exceeds 40 bytes; distinct = distinct canonical renderings of (value, level, blob prefix).",
    "C03": "Each case = one of the 11 blob kinds and a value drawn from the whole struct domain: doubles by bit-pattern class (0, -0, -1 "
           "sentinel, denormal, NaN payloads, +-inf, arbitrary bits), integer edges, labels of 0/1/short/254/255/256/300 arbitrary bytes, "
           "0..12 cue/loop entries, 1.x grids empty/2/many/1-marker/unsorted/>32768/extreme indices, waveforms 0..60/1024/large, extra_data "
           "0..64 bytes or padding the payload to a 16384-byte zlib chunk boundary -1/0/+1. Oracle: encode throws std::exception, or decode(encode(v)) is bit-identical to v (own renderer, NaN by bits) up to "
           "the one permitted loss (1.x cue/loop with offset -1 reads back absent); one time in four a damaged copy of the blob (cut short / byte altered / wrong prefix) is decoded first on the same thread and its verdict ignored. 1.x zero-means-none fields (sample rate/count, loudness, "
           "key 0 in the trackData blob) are generated absent instead of present-zero. Non-trivial = value has >=1 entry or non-empty "
           "extra_data and was accepted by the encoder; distinct = distinct canonical renderings.",
    "C04": "pbt part: a generated 2.x value (0..20 entries, arbitrary flag bytes 0..255 for is_start_set/is_end_set/is_beatgrid_set and the "
           "main-cue boolean, 0..64 trailing bytes or a tail that ends the payload on a 16384-byte zlib chunk boundary -1/0/+1) is encoded by refcodec at zlib level -1..9 and given to from_blob; if accepted, the "
           "inflated payload of to_blob(from_blob(b)) must equal the original payload byte for byte (main-cue boolean normalised to 1, located "
           "through the layout table). fuzz part: libFuzzer on the five 2.x decoders with the same oracle inside the target (raw bytes or "
           "bytes framed by the target). api part: a 2.x track row gets five foreign blobs (refcodec-built: counts != 8, flag bytes, tails) written "
           "through the library's own connection; 0..3 preliminary observers / simple setters (whose exact effect on the tokens is modelled) run on the same handle, then ONE single-field setter is called; every layout token of the four other blobs, and every "
           "token of the setter's own blob outside the field being set (incl. the tail), must be unchanged. Non-trivial = blob has a tail, a count != 8, a flag > 1, or is beat data; distinct = distinct payloads "
           "(pbt) + coverage-increasing corpus units beyond the seeds (fuzz).",
    "C05": "pbt part: a valid payload of one of the 11 kinds (from the value generators + refcodec) gets 1-2 structured mutations "
           "(truncation anywhere / near the end, a count field overwritten with 0, -1, INT64_MIN, fit+-1, 2^31, 2^59, 2^61, 2^63-1..., byte "
           "set/flip, appended bytes, tiny arbitrary payloads, minimum-size payloads with non-zero counts), then a framing (well-formed at any "
           "zlib level, wrong length prefix, deflate stream cut anywhere / near the end / inside a stored block, bytes after the stream, raw "
           "0..8 bytes, bit flip inside the stream); the decoder and zlib_uncompress must return or throw std::exception under ASan+UBSan+"
           "_GLIBCXX_ASSERTIONS and a 30 s watchdog; when the frame is well-formed zlib_uncompress must agree with one-shot inflate. fuzz part: "
           "libFuzzer (ASan+UBSan, -timeout=20) on 11 decoders + zlib_uncompress, seeds = generator-made valid blobs. enum part (no randomness, "
           "case i is a function of i; complete inside the stated box): for 6 (quick) / 30 (thorough, up to 1500 bytes) fixed valid payloads per kind: every truncation of the "
           "payload and of the framed blob (default level and stored blocks), every byte position of payload and frame x {^01, ^80, =00, =ff}, every "
           "embedded count field x 29 boundary values (INT64_MIN, -1, -2, 0, 1, fit-1, fit, fit+1, 2^31, 2^32, 2^59, 2^61, 2^63-1, multipliers that wrap 3*n / 24*n), "
           "the length prefix x 10 boundary values; and every byte string of length <= 2 into each of the 12 entry points, bare and behind four "
           "length prefixes / loop counts. Every input is "
           "non-trivial in the sense that it reaches a decoder; distinct = distinct byte strings (pbt) + coverage-increasing corpus units (fuzz).",
    "C18": "track part: case = 2.x schema + up to 9 operations on track_table (add / update of a generated 49-field row: every optional "
           "present or absent, strings incl. quotes/UTF-8/300+ bytes, int64 edges and pairwise distinct values in same-typed columns, bools, "
           "whole-second time points incl. pre-1970 and year 2255, generated encodable blob structs; per-column set_<col> with a value taken "
           "from a freshly generated row; remove; accessors, update and remove naming a never-issued or removed id). Row model: after every "
           "step, for every live row, get(id) equals the row written column by column (except id, last-edit time, and the origin pair when "
           "written empty/0 which must read (library uuid, id)), every get_<col> equals that column, all_ids() equals the live set; columns "
           "a schema lacks throw unsupported_operation; accessors and remove() on a nonexistent row must throw. lists part: playlist_table "
           "add (end / before a sibling) / get / update (in place, or moving to another sibling position or parent while other fields change) / "
           "remove, with next_list_id, child_ids(), root_ids(), descendant_ids() and all_ids() checked against the model; change_log_table add / all / after / last (offered exactly on schemas before 2.20.3) and "
           "information_table update_current_played_indicator / get against what was written; and playlist_entity_table add_back/get/get_for_list/remove/clear/track_ids against an ordered model "
           "of (track, database uuid, membership reference, entity id) - one entity in four belongs to a foreign database uuid, so the same track id can occur once per database in a list - remove() of unknown "
           "rows must throw. Non-trivial = a row with >= 40 of 49 columns populated was written (track part) / >= 2 lists or a non-last "
           "entity removal (lists part).",
    "C19": "Each case = (sample_count, sample_rate) decoded from rapidcheck-generated choices: boundary tables (0, 1, 209..211, "
           "419..421, 2^31, 2^53+-1, 2^62, k*q+{-1,0,1,q-1}) mixed with uniform draws over [0,2^62] x [0,2^31]; the compiled "
           "functions are compared with an exact unsigned-128-bit integer reference and with the metamorphic relations n->n+1, "
           "n->n+q, n->n+random. Non-trivial = q>0 and n>0; distinct = distinct (count, rate-bit-pattern) pairs.",
    "C20": "Each case = (grid, sample_count): 0..65 strictly increasing markers with generated start index in [-10^6,10^6], "
           "constant or varying tempo, placed by shape (inside, spanning both ends, marker exactly at the end / at 0, last marker "
           "far beyond, all before 0, all after the end, empty, single). Oracle = independent trimming + validity predicate "
           "(index -4, last marker in [end, end+1 beat), first/last tempo kept, interior bit-identical, idempotent). Non-trivial = "
           ">=1 marker trimmed or >=1 interior marker; distinct = distinct (n, grid) values.",
}

ASSUMPTIONS = {
    "C01": ["strings are valid UTF-8 without NUL (SQLite TEXT / C-string precondition)",
            "the expected read-back table of DESIGN appendix A is the reading of 'each field the schema can represent exactly as given'"],
    "C06": ["same domain and normalisation table as C01", "2.x set_waveform stores the overview resampled with the sample count/rate of the moment"],
    "C07": ["1.x hands the highest crate id out again after its removal (recorded as a known finding); stale handles are only checked until then",
            "every crate has two handles kept for the whole history (the one its creation returned and one from a separate crate_by_id lookup): one operation in three is made through the second handles, all checks read through the first; one case in three also keeps a second library open in the same process"],
    "C08": ["2.x track::containing_crates() is documented as not implemented; a std::runtime_error there is tolerated",
            "one case in three runs with a second library of the same schema open in the same process (same ids, other names and memberships), operated on in between and checked against its own small model"],
    "C09": ["a set_parent within the same parent may leave the crate in place or move it to the end"],
    "C10": ["the library's own random uuid and timestamps are not part of the comparison except that they must be stable across the reopen"],
    "C11": ["the model forest (C07's model) is the reference for the redundant crate encodings"],
    "C12": ["reference dumps under testdata/ref are faithful dumps of databases written by the Engine software of that version",
            "1.6.0 has no reference dump (only version numbers, verify() and reload are checked there)"],
    "C13": ["the Information row is the only place the version is stored (both files for 1.x)"],
    "C17": ["triggers are not part of the property's list of structural elements", "SQLite PRAGMA table_info / index_list / index_info report the structure faithfully"],
    "C14": ["fault model: a statement fails without executing (SQLITE_IOERR); power loss / torn pages are outside the property",
            "BEGIN and ROLLBACK are never failed; COMMIT is"],
    "C15": ["removed handles are used only as the class comments permit", "allocations above 256 MiB become std::bad_alloc"],
    "C16": ["file digests are FNV-1a over the whole file"],
    "C02": ["'The Engine format' is the layout documented at the pinned commit and frozen in harness/refcodec (DESIGN appendix B); no "
            "Engine-written blob exists offline", "zlib's one-shot uncompress2/compress2 are correct"],
    "C03": ["1.x fields whose zero value means 'none' in the format (sample rate/count, loudness, trackData key) are outside the value domain",
            "the 1.x overview waveform has no opacity bytes: opacity is not part of that codec's domain"],
    "C04": ["payload = what zlib one-shot inflate yields for the single well-formed frame (identity for loops)"],
    "C05": ["allocations above 256 MiB (pbt) / 64 MiB (fuzz targets, inputs <= 6000 bytes) are turned into std::bad_alloc by the harness's operator new (ASan's cannot throw)",
            "hangs are judged by a 30 s (pbt) / 20 s (libFuzzer) watchdog, confirmed by 3 replays"],
    "C18": ["REAL columns cannot hold NaN (SQLite stores it as NULL): NaN is outside the generated domain for bpm_analyzed",
            "paths and (originDatabaseUuid, originTrackId) pairs are generated unique (schema constraints)",
            "update() of a nonexistent row is only required not to create a row (the property names column accessors and remove())"],
    "C19": ["IEEE-754 binary64 arithmetic with round-to-nearest in the harness", "sample rates are finite and within [0, 2^31] as the property states"],
    "C20": ["grids are strictly increasing in offset and index (property domain)",
            "tempo is restricted so that every normalised index fits in a 32-bit int with margin (|index| < 2^30); "
            "indices beyond that cannot be represented by beatgrid_marker and are outside the generated domain"],
}

# ---------------------------------------------------------------------------------------------------------
# Text for MANIFEST.json (driver/gen_manifest.py regenerates the file from this module).
ENGINES = [
    dict(name="api_pbt", path="harness/api_pbt.cpp", serves_properties=["C01", "C06", "C07", "C08", "C09", "C10", "C11", "C15", "C16"],
         kind_free_text="rapidcheck-driven operation sequences on the unified API, model-based (track field model, crate forest / membership / order models), independent SQLite reader, sqlite3_step shim, g++ ASan+UBSan"),
    dict(name="codec_pbt", path="harness/codec_pbt.cpp", serves_properties=["C02", "C03", "C04", "C05"],
         kind_free_text="rapidcheck-driven value/byte generators vs refcodec (independent layout implementation), round-trip and byte-preservation oracles, ASan+UBSan"),
    dict(name="codec_fuzz", path="harness/codec_fuzz.cpp", serves_properties=["C04", "C05"],
         kind_free_text="12 libFuzzer targets (clang, ASan+UBSan) with the C03/C04/C05 oracles inside the target"),
    dict(name="table_pbt", path="harness/table_pbt.cpp", serves_properties=["C18"],
         kind_free_text="rapidcheck-driven operation sequences on the 2.x table API vs a row model (49 track columns via a column table, playlists, entities)"),
    dict(name="schema_pbt", path="harness/schema_pbt.cpp", serves_properties=["C12", "C13", "C17"],
         kind_free_text="finite enumerations (schemas x forms, version-triple box x layouts, reference dumps) and generated schema mutations; differential vs reference dumps, literal decision table, independent structural fingerprint"),
    dict(name="numeric_pbt", path="harness/numeric_pbt.cpp", serves_properties=["C19", "C20"],
         kind_free_text="rapidcheck-driven generated inputs vs exact-integer reference and validity predicates"),
]

MANIFEST_TEXT = {
    "C01": dict(engine='api_pbt', design_ref='DESIGN.md 6/C01, appendix A',
                technique='property-based testing: generated snapshots, model (expected read-back table) + fixed-point + reject-or-survive oracles',
                text='Generated snapshots on every schema, create and update: read-back equals the documented normalisation, is a fixed point, rejected writes change nothing.',
                note='Trusts the expected read-back table written from the property statement and header comments.'),
    "C06": dict(engine='api_pbt', design_ref='DESIGN.md 6/C06',
                technique='model-based property testing: generated setter sequences vs a per-field track model, getter/snapshot cross-check after every step',
                text='Setter sequences over 1..3 tracks; after every step every getter of every track equals the model and the snapshot.',
                note='Same normalisation table as C01.'),
    "C07": dict(engine='api_pbt', design_ref='DESIGN.md 6/C07',
                technique='model-based stateful property testing: generated crate operation sequences vs a forest model with validity predicates',
                text='Crate operation histories on every schema; all structural queries are compared with a forest model after every step.',
                note='remove_crate outcome freedom and sibling-name collisions are modelled as validity predicates.'),
    "C08": dict(engine='api_pbt', design_ref='DESIGN.md 6/C08',
                technique='model-based stateful property testing: membership model after id-diverging preludes',
                text='Membership histories with diverged track/crate/row ids; tracks() and containing_crates() vs a set model after every step.',
                note='2.x containing_crates() not implemented (tolerated).'),
    "C09": dict(engine='api_pbt', design_ref='DESIGN.md 6/C09',
                technique='model-based stateful property testing: ordered-list model of sibling and entry chains (2.x)',
                text='Positional inserts, moves, removals and membership changes on 2.x; listings must equal ordered model lists exactly.',
                note='Table-level playlist API is exercised through the crate API that wraps it.'),
    "C10": dict(engine='api_pbt', design_ref='DESIGN.md 6/C10',
                technique='property-based testing: generated histories with close/reopen points, observational equality before/after',
                text='On-disk libraries of every schema; canonical observation before closing equals the one after loading; schema and created flag as documented.',
                note='Observation is through the public API only.'),
    "C11": dict(engine='api_pbt', design_ref='DESIGN.md 6/C11',
                technique='property-based testing with an independent reader (own SQLite connection + refcodec) as oracle after every step',
                text='Independent structural reading of the stored files after every operation of generated histories.',
                note="Trusts SQLite's integrity/foreign-key checks and refcodec."),
    "C12": dict(engine="schema_pbt", design_ref="DESIGN.md 6/C12",
                technique="exhaustive enumeration of the finite domain + differential comparison with reference dumps; the DDL normaliser is property-tested with generated respellings and token mutations",
                text="All (schema, form) pairs are created and compared item by item with the hydrated reference dumps of the same version.",
                note="Trusts the reference dumps and the normaliser (itself tested in both directions)."),
    "C13": dict(engine="schema_pbt", design_ref="DESIGN.md 6/C13",
                technique="exhaustive enumeration of a version-triple box x layouts + generated outliers against a literal decision table",
                text="Every triple in a box containing all supported versions and their neighbours is written into a real library and loaded; the outcome must match the decision table exactly.",
                note="Two stated tolerances (3.0.0; supported triple in the other layout)."),
    "C17": dict(engine="schema_pbt", design_ref="DESIGN.md 6/C17",
                technique="mutation-based property testing: generated single structural mutations vs an independent structural fingerprint; enumeration of reference dumps",
                text="Generated single-element mutations of created libraries: verify() must reject exactly the mutants whose independently computed structure differs, and accept all reference dumps.",
                note="Mutants that SQLite itself refuses to load are discarded (counted)."),
    "C14": dict(engine='api_pbt', design_ref='DESIGN.md 6/C14',
                technique='property-based fault injection: generated (state, operation) pairs x exhaustive SQL-statement fault positions via a sqlite3_step shim',
                text='For generated states and every public mutator, every statement the call executes is failed in turn; the call must throw, leave the observable state unchanged and the library usable.',
                note='Statement-level faults only; the shim relies on sqlite_modern_cpp having a single sqlite3_step call site.'),
    "C15": dict(engine='api_pbt', design_ref='DESIGN.md 6/C15',
                technique='property-based robustness testing (hostile generated arguments) under ASan+UBSan+libstdc++ assertions with a watchdog',
                text='Hostile-argument histories over the whole public API; any sanitizer report, assertion, non-std exception or hang is a violation.',
                note='Coverage-guided fuzzing is not available at this level (clang cannot build the full library).'),
    "C16": dict(engine='api_pbt', design_ref='DESIGN.md 6/C16',
                technique='property-based testing: statement-level write monitor + change counter + repeat-equality + file digests',
                text='Observation phases on generated states: no write statement, no change, same answers, same files.',
                note='Relies on the sqlite3_step shim seeing every statement the library executes (single call site).'),
    "C02": dict(engine="codec_pbt", design_ref="DESIGN.md 6/C02, appendix B",
                technique="property-based differential testing: library codecs vs an independent table-driven codec (refcodec), both directions",
                text="Generated values of all 11 blob kinds are encoded by the library and decoded by an independent implementation of the "
                     "documented layout (and vice versa, at every zlib level, with foreign flags/tails); any drift of field order, width, "
                     "endianness or framing on either side shows as a token mismatch.",
                note="Trusts refcodec's layout tables (frozen from the documented format), zlib one-shot API."),
    "C03": dict(engine="codec_pbt", design_ref="DESIGN.md 6/C03",
                technique="property-based round-trip testing over the whole struct domain (bit-exact comparison, reject-or-survive)",
                text="Generated values over the whole struct domain (every double class, over-long labels, 0..12 slots, malformed grids, "
                     "extra data): encode either throws or decodes back bit-identically; heap errors are visible through ASan.",
                note="Trusts the harness's canonical renderer; 1.x zero-means-none fields excluded from the domain as documented."),
    "C04": dict(engine="codec_pbt + codec_fuzz", design_ref="DESIGN.md 6/C04",
                technique="property-based metamorphic testing (decode/re-encode byte preservation) + coverage-guided fuzzing with the oracle in the target",
                text="Foreign 2.x blobs built by refcodec (arbitrary counts, flags, tails, zlib levels) and libFuzzer mutations of them: "
                     "whenever from_blob accepts, to_blob must reproduce the payload byte for byte.",
                note="Payload = one-shot inflate of the single well-formed frame; the api part reads blobs through the library's own connection."),
    "C05": dict(engine="codec_pbt + codec_fuzz", design_ref="DESIGN.md 6/C05",
                technique="coverage-guided fuzzing (libFuzzer, ASan+UBSan) + structured near-miss generation with sanitizers and a watchdog",
                text="Arbitrary and structured-corrupt byte strings into all 11 decoders and zlib_uncompress: return or std::exception, no "
                     "sanitizer report, no assertion, no hang.",
                note="A bound on run time (watchdog), not a termination proof; allocations >256 MiB (64 MiB in fuzz targets) become bad_alloc."),
    "C18": dict(engine="table_pbt", design_ref="DESIGN.md 6/C18",
                technique="model-based property testing: generated rows and operation sequences on the 2.x table API vs a row model with a per-column accessor table",
                text="Generated 49-column rows with pairwise distinct same-typed values; every row and every per-column accessor is compared with the model after every step on all seven 2.x schemas.",
                note="Trusts the harness's column table (one macro line per column)."),
    "C19": dict(engine="numeric_pbt", design_ref="DESIGN.md 6/C19",
                technique="property-based testing: generated (count, rate) pairs vs exact 128-bit integer reference + metamorphic monotonicity",
                text="Generated-input search (boundary tables + uniform draws over the stated domain) comparing the compiled functions "
                     "with an exact integer reference; not a proof over the integers.",
                note="Trusts IEEE-754 arithmetic of the harness and the reference written from the property statement."),
    "C20": dict(engine="numeric_pbt", design_ref="DESIGN.md 6/C20",
                technique="property-based testing: generated beat grids vs independent trimming + validity predicate + idempotence",
                text="Generated grids of every placement shape against an independently written trimming and a validity predicate "
                     "(index -4, end bracket, tempo kept, interior bit-identical, idempotent).",
                note="Grids strictly increasing, indices within 32-bit range; floating-point tolerance 1e-9 relative as stated in DESIGN."),
}

_WIP = "check under construction in this session (harness not yet committed); will be claimed once it runs green and has been sensitivity-tested"
NOT_APPLICABLE = {p: _WIP for p in ["C%02d" % i for i in range(1, 19)] if p not in CHECKS}
