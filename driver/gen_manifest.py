#!/usr/bin/env python3
"""Regenerates /verif/MANIFEST.json from driver/registry.py (single source of truth for what is claimed)."""
import json, os, sys
sys.path.insert(0, os.path.dirname(os.path.abspath(__file__)))
from registry import CHECKS, MANIFEST_TEXT, NOT_APPLICABLE, ENGINES

ROOT = os.path.dirname(os.path.dirname(os.path.abspath(__file__)))
ALL = ["C%02d" % i for i in range(1, 21)]


def main():
    checks = []
    for pid in ALL:
        if pid not in CHECKS:
            continue
        c, t = CHECKS[pid], MANIFEST_TEXT[pid]
        checks.append(dict(
            property_id=pid,
            quick_cmd="./vcheck check %s --tier quick" % pid,
            thorough_cmd="./vcheck check %s --tier thorough" % pid,
            evidence_file="/verif/evidence/%s.json" % pid,
            replay_cmd_template="./vcheck replay %s {path}" % pid,
            engine=t["engine"],
            level_claimed=dict(category=c["level"], text=t["text"], design_ref=t["design_ref"]),
            level_note=t["note"],
            technique=t["technique"]))
    na = [dict(property_id=p, reason=NOT_APPLICABLE[p]) for p in ALL if p not in CHECKS]
    missing = [p for p in ALL if p not in CHECKS and p not in NOT_APPLICABLE]
    if missing:
        raise SystemExit("properties neither claimed nor listed not_applicable: %s" % missing)
    m = dict(
        version=1,
        setup_cmd="./vcheck setup",
        hooks=dict(
            guard="XSCO_LIBDJINTEROP_VERIF",
            enable="no source hooks: the checks compile /repo's working tree themselves (driver/build.py) with "
                   "-DXSCO_LIBDJINTEROP_VERIF -Dsqlite3_step=verif_sqlite3_step (a compile-line macro that routes the single "
                   "sqlite3_step call site of ext/sqlite_modern_cpp through harness/common/sqlite_shim.cpp), g++ ASan+UBSan, "
                   "_GLIBCXX_ASSERTIONS, asserts on",
            baseline_off_cmd="./vcheck baseline-off",
            source_commits=[],
            add_only=True),
        engines=ENGINES,
        checks=checks,
        not_applicable=na,
        notes="All checks are property-based tests / fuzzers (rapidcheck-driven generators with an owned campaign loop, libFuzzer "
              "for codec targets, bounded-exhaustive enumerators for finite domains) against explicit oracles; see DESIGN.md. "
              "Genuine defects found are in known_findings.json (fixed: entries name the 'fix:' commit in /repo).")
    json.dump(m, open(os.path.join(ROOT, "MANIFEST.json"), "w"), indent=1)
    print("MANIFEST.json: %d checks, %d not_applicable" % (len(checks), len(na)))


if __name__ == "__main__":
    main()
